//! Batch execution of simulated cases on all cores, aggregation of reach statistics, evidence files.

use crate::oracle::{CaseStats, Finding};
use serde_json::{Value, json};
use std::collections::{BTreeMap, HashSet};
use std::sync::Mutex;
use std::sync::atomic::{AtomicBool, AtomicU64, Ordering};
use std::time::Instant;

pub struct CaseRecord {
    pub idx: u64,
    /// findings that belong to the check being run (already filtered / re-tagged)
    pub findings: Vec<Finding>,
    /// harness errors (never a verdict)
    pub harness_errors: Vec<String>,
    pub stats: CaseStats,
    /// a short printable description of the case (for evidence samples)
    pub sample: Option<Value>,
    pub group: &'static str,
}

#[derive(Default)]
pub struct Aggregate {
    pub evaluations: u64,
    pub completed: u64,
    pub decisions: u64,
    pub steps: u64,
    pub context_switches: u64,
    pub preemptions: u64,
    pub fair_phase_entered: u64,
    pub max_fair_decisions: u64,
    pub nontrivial: u64,
    pub behaviours_nontrivial: HashSet<u64>,
    pub behaviours_all: HashSet<u64>,
    pub trace_hashes: HashSet<u64>,
    pub counters: BTreeMap<&'static str, u64>,
    pub groups: BTreeMap<&'static str, u64>,
    pub samples: Vec<Value>,
    pub findings: Vec<(u64, Finding)>,
    pub harness_errors: Vec<(u64, String)>,
}

impl Aggregate {
    fn add(&mut self, name: &'static str, v: u64) {
        if v > 0 {
            *self.counters.entry(name).or_insert(0) += v;
        }
    }

    pub fn absorb(&mut self, r: CaseRecord) {
        let s = &r.stats;
        self.evaluations += 1;
        *self.groups.entry(r.group).or_insert(0) += 1;
        if s.completed {
            self.completed += 1;
        }
        self.decisions += s.decisions;
        self.steps += s.steps;
        self.context_switches += s.context_switches;
        self.preemptions += s.preemptions;
        if s.fair_phase_entered {
            self.fair_phase_entered += 1;
            self.max_fair_decisions = self.max_fair_decisions.max(s.fair_decisions);
        }
        self.behaviours_all.insert(s.behaviour);
        if s.nontrivial {
            self.nontrivial += 1;
            self.behaviours_nontrivial.insert(s.behaviour);
        }
        self.trace_hashes.insert(s.trace_hash);
        let p = &s.probes;
        self.add("probe.reexecutions", p.reexecutions);
        self.add("probe.estimate_reads", p.estimate_reads);
        self.add("probe.exec_errors", p.exec_errors);
        self.add("probe.error_at_commit_head", p.error_at_head);
        self.add("probe.error_at_commit_head_invalid_tx", p.error_at_head_invalid);
        self.add("probe.validations", p.validations);
        self.add("probe.validation_conflicts", p.validation_conflicts);
        self.add("probe.rewinds", p.rewinds);
        self.add("probe.finalities", p.finalities);
        self.add("probe.parallel_commits", p.commits);
        self.add("probe.commit_needs_fallback", p.commit_needs_fallback);
        self.add("probe.sequential_commits", p.seq_commits);
        self.add("probe.sequential_skips", p.seq_skips);
        self.add("probe.sequential_errors", p.seq_errors);
        self.add("probe.abort_fatal", p.abort_fatal);
        self.add("probe.abort_commit_error", p.abort_commit_error);
        self.add("probe.abort_parallel_error", p.abort_parallel_error);
        self.add("probe.abort_fallback_sequential", p.abort_fallback);
        self.add("fault.cas_weak_spurious_failure", s.rt_faults[0]);
        self.add("fault.lock_contended", s.rt_faults[1]);
        self.add("fault.park_blocked", s.rt_faults[2]);
        self.add("fault.unpark", s.rt_faults[3]);
        self.add("fault.yield", s.rt_faults[4]);
        self.add("fault.rwlock_contended", s.rt_faults[5]);
        self.add("fault.spurious_wake_or_timeout", s.spurious_wakes);
        self.add("fault.thread_stall_decisions", s.starve_applied);
        self.add("fault.thread_paused_at_site", s.pauses_applied);
        self.add("fault.db_latency_points", s.db_latency_points);
        self.add("fault.db_error_persistent", s.db_errors_persistent);
        self.add("fault.db_error_once", s.db_errors_once);
        self.add("fault.db_error_nth", s.db_errors_nth);
        self.add("fault.db_panic", s.db_panics);
        self.add("fault.precompile_fatal", s.precompile_fatals);
        self.add("fault.precompile_panic", s.precompile_panics);
        self.add("fault.precompile_ignored_fault", s.precompile_ignored_faults);
        self.add("db.calls", s.db_calls);
        self.add("probe.database_asked_for_unknown_code_hash", s.unknown_code_requests);
        self.add("precompile.calls", s.precompile_calls);
        self.add("case.reference_error", s.reference_error as u64);
        self.add("case.call_error", s.call_error as u64);
        self.add("case.call_panic", s.call_panic as u64);
        self.add("case.readback_keys", s.readback_keys);
        for (k, n) in &s.workload {
            self.add(k, *n);
        }
        if let Some(sample) = r.sample &&
            self.samples.len() < 3
        {
            self.samples.push(sample);
        }
        for f in r.findings {
            if self.findings.len() < 4096 {
                self.findings.push((r.idx, f));
            }
        }
        for e in r.harness_errors {
            if self.harness_errors.len() < 16 {
                self.harness_errors.push((r.idx, e));
            }
        }
    }
}

/// Run `runs` cases (indices 0..runs) on `jobs` OS threads. Stops early once `max_findings` cases with
/// findings have been collected. Case evaluation is a pure function of (seed, idx): the order in
/// which threads pick indices never influences a case.
pub fn run_batch(
    runs: u64,
    jobs: usize,
    max_finding_cases: usize,
    deadline: Option<Instant>,
    case: &(dyn Fn(u64) -> CaseRecord + Sync),
) -> (Aggregate, f64) {
    crate::hook::warm_up();
    let next = AtomicU64::new(0);
    let stop = AtomicBool::new(false);
    let agg = Mutex::new(Aggregate::default());
    let finding_cases = AtomicU64::new(0);
    let start = Instant::now();
    std::thread::scope(|scope| {
        for _ in 0..jobs.max(1) {
            scope.spawn(|| {
                loop {
                    if stop.load(Ordering::Relaxed) {
                        break;
                    }
                    let idx = next.fetch_add(1, Ordering::Relaxed);
                    if idx >= runs {
                        break;
                    }
                    if let Some(d) = deadline &&
                        Instant::now() > d
                    {
                        stop.store(true, Ordering::Relaxed);
                        break;
                    }
                    let record = case(idx);
                    let has = !record.findings.is_empty() || !record.harness_errors.is_empty();
                    agg.lock().unwrap().absorb(record);
                    if has && finding_cases.fetch_add(1, Ordering::Relaxed) + 1 >= max_finding_cases as u64 {
                        stop.store(true, Ordering::Relaxed);
                    }
                }
            });
        }
    });
    let wall = start.elapsed().as_secs_f64();
    (agg.into_inner().unwrap(), wall)
}

pub struct EvidenceMeta<'a> {
    pub property: &'a str,
    pub tier: &'a str,
    pub seed: u64,
    pub level: &'a str,
    pub rule: &'a str,
    pub assumptions: Vec<String>,
    pub real_components: Vec<&'a str>,
    pub replaced_components: Vec<&'a str>,
    pub stubbed_components: Vec<&'a str>,
    pub extra: Value,
}

pub fn write_evidence(meta: &EvidenceMeta<'_>, agg: &Aggregate, wall: f64, violations: u64, known: u64) {
    if std::env::var_os("VERIF_NO_EVIDENCE").is_some() {
        // sensitivity runs against a deliberately broken tree must not overwrite the evidence files
        return;
    }
    let runs_per_hour = if wall > 0.0 { (agg.evaluations as f64 / wall * 3600.0) as u64 } else { 0 };
    let mut samples = agg.samples.clone();
    if samples.is_empty() {
        samples.push(json!({"note": "no sample recorded"}));
    }
    let v = json!({
        "property_id": meta.property,
        "tier": meta.tier,
        "seed": meta.seed,
        "level": meta.level,
        "coverage": {
            "evaluations": agg.evaluations,
            "distinct_nontrivial": agg.behaviours_nontrivial.len(),
            "rule": meta.rule,
            "samples": samples,
            "reach": {
                "simulated_runs": agg.evaluations,
                "runs_completed": agg.completed,
                "runs_per_hour": runs_per_hour,
                "simulated_time_decisions": agg.decisions,
                "schedule_points_executed": agg.steps,
                "context_switches": agg.context_switches,
                "preemptions": agg.preemptions,
                "distinct_interleavings_by_trace_hash": agg.trace_hashes.len(),
                "distinct_abstract_behaviours": agg.behaviours_all.len(),
                "nontrivial_runs": agg.nontrivial,
                "fair_phase_entered_runs": agg.fair_phase_entered,
                "max_fair_phase_decisions": agg.max_fair_decisions,
                "faults_and_probes_fired": agg.counters,
                "case_groups": agg.groups,
                "known_findings_matched": known,
            },
            "components_real": meta.real_components,
            "components_replaced_by_simulator": meta.replaced_components,
            "components_stubbed": meta.stubbed_components,
            "extra": meta.extra,
        },
        "assumptions": meta.assumptions,
        "wall_s": wall,
        "violations": violations,
    });
    // VERIF_EVIDENCE_DIR: scratch runs (tuning, probes) write elsewhere; the registered commands never set it
    let dir = std::env::var_os("VERIF_EVIDENCE_DIR").map(std::path::PathBuf::from).unwrap_or_else(|| crate::paths::verif_root().join("evidence"));
    let _ = std::fs::create_dir_all(&dir);
    let path = dir.join(format!("{}.json", meta.property));
    std::fs::write(&path, serde_json::to_string_pretty(&v).unwrap()).expect("write evidence");
}
