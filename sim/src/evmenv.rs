//! Scenario -> revm environment types, shared by the simulated run and the reference.

use crate::scenario::{BlockSpec, EvmSpec, TxSpec};
use revm_context::{
    BlockEnv, CfgEnv, TxEnv,
    either::Either,
    transaction::{AccessList, AccessListItem, Authorization, RecoveredAuthority, RecoveredAuthorization},
};
use revm_primitives::{TxKind, U256};

pub fn make_cfg(spec: &EvmSpec) -> CfgEnv {
    let mut cfg = CfgEnv::new_with_spec(spec.spec);
    cfg.chain_id = spec.chain_id;
    cfg.disable_nonce_check = spec.disable_nonce_check;
    cfg
}

pub fn make_block(b: &BlockSpec) -> BlockEnv {
    // BlockEnv::default() carries excess blob gas 0 under the Prague update fraction (blob gas price 1);
    // a non-zero excess raises the price (the fraction is a block-environment input like any other: the
    // reference and Grevm receive the same BlockEnv)
    let mut env = BlockEnv::default();
    env.set_blob_excess_gas_and_price(b.excess_blob_gas, 5_007_716);
    BlockEnv {
        blob_excess_gas_and_price: env.blob_excess_gas_and_price,
        number: U256::from(b.number),
        beneficiary: b.beneficiary,
        timestamp: U256::from(b.timestamp),
        gas_limit: b.gas_limit,
        basefee: b.basefee,
        difficulty: b.difficulty,
        prevrandao: Some(b.prevrandao),
        ..Default::default()
    }
}

pub fn make_tx(t: &TxSpec) -> TxEnv {
    let authorization_list = t
        .auths
        .iter()
        .map(|a| {
            let auth = Authorization { chain_id: U256::from(a.chain_id), address: a.address, nonce: a.nonce };
            let authority = match a.authority {
                Some(addr) => RecoveredAuthority::Valid(addr),
                None => RecoveredAuthority::Invalid,
            };
            Either::Right(RecoveredAuthorization::new_unchecked(auth, authority))
        })
        .collect();
    let access_list = AccessList(
        t.access_list
            .iter()
            .map(|(address, keys)| AccessListItem { address: *address, storage_keys: keys.clone() })
            .collect(),
    );
    TxEnv {
        tx_type: t.tx_type,
        caller: t.caller,
        gas_limit: t.gas_limit,
        gas_price: t.gas_price,
        kind: match t.to {
            Some(to) => TxKind::Call(to),
            None => TxKind::Create,
        },
        value: t.value,
        data: t.data.clone(),
        nonce: t.nonce,
        chain_id: t.chain_id,
        access_list,
        gas_priority_fee: t.priority_fee,
        authorization_list,
        blob_hashes: t.blob_hashes.clone(),
        max_fee_per_blob_gas: t.max_fee_per_blob_gas,
        ..TxEnv::default()
    }
}
