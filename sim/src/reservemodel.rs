//! C13 (3): an independent executable model of the delegated-balance reserve rule, built on stock revm
//! and the property text only (nothing from `src/delegated_safety` is used):
//!
//!   for every transaction i, executed in order by stock revm with a recording inspector:
//!     surviving value movements (CALL value, CREATE endowment, SELFDESTRUCT; frames that revert or
//!     halt are discarded; the transaction's own top-level value is not a movement of this kind) out
//!     of an account whose code is an EIP-7702 delegation designator are collected; for each such
//!     account A:   required(A) = min( balance of A immediately before its first surviving debit,
//!                                     saturating sum of max_balance_spending of A's own transactions
//!                                     with index > i in the block );
//!     the transaction violates the reserve iff  final_balance(A) < required(A)  for some A.
//!   no violation -> outcome and state are exactly stock revm's;
//!   violation    -> the transaction is a charged top-level revert: the same transaction is executed
//!                   again by stock revm with an inspector that turns the top-level frame into a REVERT
//!                   with empty output at its first instruction, with exactly the gas the attempted
//!                   execution had left and no execution refund. revm itself then applies what survives
//!                   such a revert: fee, nonce bump, authorisation effects and authorisation refund,
//!                   gas floor, reimbursement and the fee recipient's reward.
//!
//! The model is the reference of C13 for blocks run with a delegated-safety policy on (Prague or later).
//! The CREATE guard is modelled too (a CREATE / CREATE2 instruction whose frame's state account carries a
//! delegation designator halts the frame as not-activated), so that blocks run with guard + reserve or
//! the guard alone have a data reference as well (C12 itself stays not applicable to this technique: the
//! guard has no schedule in it; here it is only part of the reference for C13 / C06 blocks).

use crate::evmenv::{make_block, make_cfg, make_tx};
use crate::norm::normalise;
use crate::reference::{RefBlock, RefState, RefStep};
use crate::scenario::{BlockSpec, EvmSpec, TxSpec};
use alloy_evm::precompiles::PrecompilesMap;
use grevm::{DynParallelPrecompile, TxExecutionOutcome};
use revm::interpreter::interpreter_types::Jumps;
use revm::{
    Context, DatabaseCommit, DatabaseRef, InspectEvm, MainBuilder, MainContext,
    context_interface::{ContextTr, JournalTr, Transaction},
    interpreter::{CallInputs, CallOutcome, CreateInputs, CreateOutcome, Gas, InstructionResult, Interpreter, interpreter::EthInterpreter},
    precompile::{PrecompileSpecId, Precompiles},
};
use revm_context::result::EVMError;
use revm_inspector::Inspector;
use revm_primitives::{Address, U256, hardfork::SpecId};
use revm_state::EvmState;

#[derive(Clone, Copy, Debug)]
struct Debit {
    source: Address,
    balance_before: U256,
}

#[derive(Default)]
pub struct ReserveInspector {
    /// Some(gas): second pass - force the top-level frame to revert with this gas
    force: Option<Gas>,
    forced: bool,
    /// one list of (tentative) debits per open frame
    frames: Vec<Vec<Debit>>,
    surviving: Vec<Debit>,
    top_gas: Option<Gas>,
    /// the CREATE guard is on: CREATE / CREATE2 in the context of a delegated account halt the frame
    guard: bool,
    /// frames halted by the guard in this transaction
    pub guard_halts: u64,
}

impl ReserveInspector {
    fn open(&mut self, debit: Option<Debit>) {
        self.frames.push(debit.into_iter().collect());
    }

    fn close(&mut self, ok: bool, gas: Gas) {
        let debits = self.frames.pop().unwrap_or_default();
        if self.frames.is_empty() {
            self.top_gas = Some(gas);
            if ok {
                self.surviving.extend(debits);
            }
        } else if ok {
            self.frames.last_mut().unwrap().extend(debits);
        }
    }
}

impl<CTX> Inspector<CTX, EthInterpreter> for ReserveInspector
where
    CTX: ContextTr<Journal: JournalTr<State = EvmState>>,
{
    fn step(&mut self, interp: &mut Interpreter<EthInterpreter>, context: &mut CTX) {
        if let Some(gas) = self.force &&
            !self.forced &&
            self.frames.len() == 1
        {
            self.forced = true;
            let mut gas = gas;
            gas.set_refund(0);
            interp.gas = gas;
            interp.halt(InstructionResult::Revert);
            return;
        }
        // CREATE guard (property text of C12, used here only so that guard-on blocks have a data reference):
        // CREATE / CREATE2 executed in the context of an account whose code is a delegation designator
        // halt that frame as not-activated. The executing context is the frame's state account
        // (`target_address`: it stays the delegated account through DELEGATECALL / CALLCODE).
        if self.guard && matches!(interp.bytecode.opcode(), 0xf0 | 0xf5) && !interp.runtime_flag.is_static {
            let context_account = interp.input.target_address;
            let delegated = context
                .journal()
                .evm_state()
                .get(&context_account)
                .and_then(|a| a.info.code.as_ref())
                .is_some_and(|c| c.is_eip7702());
            if delegated {
                self.guard_halts += 1;
                interp.halt(InstructionResult::NotActivated);
                return;
            }
        }
        // SELFDESTRUCT is observed at the instruction itself (contract = the frame's state account, heir =
        // top of the stack). revm's `Inspector::selfdestruct` callback is not used: it reports the LAST
        // journal entry, which is an unrelated earlier transfer when the instruction moves nothing (heir
        // = the account itself on Cancun and later). A debit recorded here is tentative like every other:
        // it survives only if this frame and all enclosing frames end successfully.
        if interp.bytecode.opcode() == 0xff &&
            let Ok(heir) = interp.stack.peek(0)
        {
            let contract = interp.input.target_address;
            let heir = Address::from_word(heir.into());
            let balance = context.journal().evm_state().get(&contract).map(|a| a.info.balance).unwrap_or_default();
            if heir != contract &&
                !balance.is_zero() &&
                let Some(frame) = self.frames.last_mut()
            {
                frame.push(Debit { source: contract, balance_before: balance });
            }
        }
    }

    fn call(&mut self, context: &mut CTX, inputs: &mut CallInputs) -> Option<CallOutcome> {
        // the top-level frame's value is the transaction's own value: not a delegated debit
        let top = self.frames.is_empty();
        let debit = (!top && inputs.transfers_value() && inputs.caller != inputs.target_address).then(|| Debit {
            source: inputs.caller,
            balance_before: context.journal().evm_state().get(&inputs.caller).map(|a| a.info.balance).unwrap_or_default(),
        });
        self.open(debit);
        None
    }

    fn call_end(&mut self, _context: &mut CTX, _inputs: &CallInputs, outcome: &mut CallOutcome) {
        self.close(outcome.result.result.is_ok(), outcome.result.gas);
    }

    fn create(&mut self, context: &mut CTX, inputs: &mut CreateInputs) -> Option<CreateOutcome> {
        let top = self.frames.is_empty();
        let caller = inputs.caller();
        let debit = (!top && !inputs.value().is_zero()).then(|| Debit {
            source: caller,
            balance_before: context.journal().evm_state().get(&caller).map(|a| a.info.balance).unwrap_or_default(),
        });
        self.open(debit);
        None
    }

    fn create_end(&mut self, _context: &mut CTX, _inputs: &CreateInputs, outcome: &mut CreateOutcome) {
        self.close(outcome.result.result.is_ok(), outcome.result.gas);
    }

}

/// Saturating sum of the maximum costs of `account`'s own transactions after index `i`.
fn required_after(txs: &[revm_context::TxEnv], i: usize, account: Address) -> U256 {
    let mut sum = U256::ZERO;
    for tx in txs.iter().skip(i + 1) {
        if tx.caller == account {
            sum = sum.saturating_add(tx.max_balance_spending().unwrap_or(U256::MAX));
        }
    }
    sum
}

pub struct ModelReport {
    pub block: RefBlock,
    /// transactions the model turned into a charged revert
    pub violations: Vec<usize>,
    /// transactions with at least one surviving delegated debit
    pub debit_txs: u64,
    /// frames halted by the CREATE guard
    pub guard_halts: u64,
    /// the model cannot decide this block (a delegated debit source is the fee recipient, whose final
    /// balance in the journal output already includes the reward)
    pub undecided: bool,
}

/// In-order execution under the reserve rule (policy on, Prague or later), by stock revm + the rule.
pub fn run_reserve_model_block(
    state: &mut RefState<'_>,
    evm_spec: &EvmSpec,
    block: &BlockSpec,
    txs: &[TxSpec],
    precompiles: &[(Address, DynParallelPrecompile)],
    preload_beneficiary: bool,
    reserve: bool,
    guard: bool,
) -> ModelReport {
    let mut steps = Vec::with_capacity(txs.len());
    let mut raw = Vec::with_capacity(txs.len());
    let mut report = ModelReport { block: RefBlock { steps: vec![], raw: vec![], error: None }, violations: vec![], debit_txs: 0, guard_halts: 0, undecided: false };
    if preload_beneficiary &&
        let Err(e) = state.basic_ref(block.beneficiary)
    {
        report.block.error = Some((0, EVMError::Database(e.into_external_error())));
        return report;
    }
    let cfg = make_cfg(evm_spec);
    let spec = cfg.spec;
    let active = reserve && spec >= SpecId::PRAGUE;
    let guard = guard && spec >= SpecId::PRAGUE;
    let tx_envs: Vec<revm_context::TxEnv> = txs.iter().map(make_tx).collect();
    let mut evm = Context::mainnet()
        .with_db(&mut *state)
        .with_cfg(cfg)
        .with_block(make_block(block))
        .build_mainnet_with_inspector(ReserveInspector::default())
        .with_precompiles(PrecompilesMap::from_static(Precompiles::new(PrecompileSpecId::from_spec_id(spec))));
    for (address, precompile) in precompiles {
        let precompile = precompile.to_alloy();
        evm.precompiles.apply_precompile(address, move |_| Some(precompile));
    }
    for (txid, tx) in tx_envs.iter().enumerate() {
        evm.set_inspector(ReserveInspector { guard, ..ReserveInspector::default() });
        let first = evm.inspect_tx(tx.clone());
        let mut result_and_state = match first {
            Ok(rs) => rs,
            Err(EVMError::Transaction(invalid)) => {
                raw.push(None);
                steps.push(RefStep { outcome: TxExecutionOutcome::Skipped(invalid), delta: None });
                continue;
            }
            Err(other) => {
                let other = match other {
                    EVMError::Transaction(t) => EVMError::Transaction(t),
                    EVMError::Header(h) => EVMError::Header(h),
                    EVMError::Database(inner) => EVMError::Database(inner.into_external_error()),
                    EVMError::Custom(s) => EVMError::Custom(s),
                    EVMError::CustomAny(a) => EVMError::CustomAny(a),
                };
                report.block.steps = steps;
                report.block.raw = raw;
                report.block.error = Some((txid, other));
                return report;
            }
        };
        report.guard_halts += evm.inspector.guard_halts;
        // ---- the rule
        let mut violation = false;
        if active {
            let probe = &evm.inspector;
            let mut seen: Vec<Address> = Vec::new();
            let mut any = false;
            for d in &probe.surviving {
                if seen.contains(&d.source) {
                    continue;
                }
                seen.push(d.source);
                let Some(account) = result_and_state.state.get(&d.source) else { continue };
                let delegated = account.info.code.as_ref().is_some_and(|c| c.is_eip7702());
                if !delegated {
                    continue;
                }
                any = true;
                if d.source == block.beneficiary {
                    report.undecided = true;
                }
                let required = d.balance_before.min(required_after(&tx_envs, txid, d.source));
                if account.info.balance < required {
                    violation = true;
                }
            }
            if any {
                report.debit_txs += 1;
            }
        }
        if violation {
            let gas = evm.inspector.top_gas.expect("a transaction with surviving debits ran a top-level frame");
            evm.set_inspector(ReserveInspector { force: Some(gas), ..ReserveInspector::default() });
            match evm.inspect_tx(tx.clone()) {
                Ok(rs) => {
                    if !evm.inspector.forced {
                        report.undecided = true;
                    }
                    result_and_state = rs;
                    report.violations.push(txid);
                }
                Err(_) => {
                    // cannot happen for a transaction that has just executed on the same state
                    report.undecided = true;
                }
            }
        }
        let delta = normalise(&result_and_state.state);
        raw.push(Some(result_and_state.state.clone()));
        evm.ctx.journaled_state.database.commit(result_and_state.state);
        steps.push(RefStep { outcome: TxExecutionOutcome::Executed(result_and_state.result), delta: Some(delta) });
    }
    report.block.steps = steps;
    report.block.raw = raw;
    report
}
