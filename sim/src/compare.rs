//! Comparators over public results: outcomes, bundles (field by field), readable state.

use grevm::TxExecutionOutcome;
use revm_database::{AccountRevert, BundleAccount, BundleState, states::StorageSlot};
use revm_primitives::{Address, U256};
use std::collections::BTreeMap;

pub fn diff_outcomes(actual: &[TxExecutionOutcome], expected: &[TxExecutionOutcome]) -> Option<String> {
    for (i, (a, e)) in actual.iter().zip(expected.iter()).enumerate() {
        if a != e {
            return Some(format!("outcome {i}: {a:?} != in-order {e:?}"));
        }
    }
    if actual.len() != expected.len() {
        return Some(format!("{} outcomes returned, in-order execution yields {}", actual.len(), expected.len()));
    }
    None
}

/// Field-by-field bundle comparison: state (info, original info, status, storage with original
/// values), contracts, per-block reverts as sets, state_size, reverts_size.
pub fn diff_bundles(actual: &BundleState, expected: &BundleState) -> Option<String> {
    let a_contracts: BTreeMap<_, _> = actual.contracts.iter().collect();
    let e_contracts: BTreeMap<_, _> = expected.contracts.iter().collect();
    if a_contracts.len() != e_contracts.len() || a_contracts.keys().ne(e_contracts.keys()) {
        return Some(format!(
            "bundle contracts {:?} != expected {:?}",
            a_contracts.keys().collect::<Vec<_>>(),
            e_contracts.keys().collect::<Vec<_>>()
        ));
    }
    for (hash, code) in &a_contracts {
        if code.original_bytes() != e_contracts[hash].original_bytes() {
            return Some(format!("bundle contract {hash}: bytecode differs"));
        }
    }
    let a_state: BTreeMap<&Address, &BundleAccount> = actual.state.iter().collect();
    let e_state: BTreeMap<&Address, &BundleAccount> = expected.state.iter().collect();
    if a_state.keys().ne(e_state.keys()) {
        return Some(format!(
            "bundle accounts {:?} != expected {:?}",
            a_state.keys().collect::<Vec<_>>(),
            e_state.keys().collect::<Vec<_>>()
        ));
    }
    for (address, a) in &a_state {
        let e = e_state[address];
        if a.info != e.info {
            return Some(format!("bundle account {address}: info {:?} != expected {:?}", a.info, e.info));
        }
        if a.original_info != e.original_info {
            return Some(format!(
                "bundle account {address}: original_info {:?} != expected {:?}",
                a.original_info, e.original_info
            ));
        }
        if a.status != e.status {
            return Some(format!("bundle account {address}: status {:?} != expected {:?}", a.status, e.status));
        }
        let a_storage: BTreeMap<&U256, &StorageSlot> = a.storage.iter().collect();
        let e_storage: BTreeMap<&U256, &StorageSlot> = e.storage.iter().collect();
        if a_storage != e_storage {
            return Some(format!("bundle account {address}: storage {a_storage:?} != expected {e_storage:?}"));
        }
    }
    if actual.reverts.len() != expected.reverts.len() {
        return Some(format!("bundle has {} revert blocks, expected {}", actual.reverts.len(), expected.reverts.len()));
    }
    for (block, (a, e)) in actual.reverts.iter().zip(expected.reverts.iter()).enumerate() {
        let a_map: BTreeMap<&Address, &AccountRevert> = a.iter().map(|(k, v)| (k, v)).collect();
        let e_map: BTreeMap<&Address, &AccountRevert> = e.iter().map(|(k, v)| (k, v)).collect();
        if a.len() != e.len() || a_map.len() != a.len() {
            return Some(format!("bundle reverts of block {block}: {} entries, expected {}", a.len(), e.len()));
        }
        if a_map.keys().ne(e_map.keys()) {
            return Some(format!("bundle reverts of block {block}: accounts differ"));
        }
        for (address, ar) in &a_map {
            if *ar != e_map[address] {
                return Some(format!("bundle revert of block {block} account {address}: {ar:?} != expected {:?}", e_map[address]));
            }
        }
    }
    if actual.state_size != expected.state_size {
        return Some(format!("bundle state_size {} != expected {}", actual.state_size, expected.state_size));
    }
    if actual.reverts_size != expected.reverts_size {
        return Some(format!("bundle reverts_size {} != expected {}", actual.reverts_size, expected.reverts_size));
    }
    None
}
