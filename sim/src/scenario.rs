//! Self-contained description of one simulated run: EVM configuration, pre-state, block, Grevm
//! configuration, fault plan, precompile set, entry points. A replay file is a `Scenario` + a
//! `SchedSpec` + the recorded decision trace; replay does not depend on the generator.

use revm_primitives::{Address, B256, Bytes, U256, hardfork::SpecId};
use serde_json::{Value, json};
use std::str::FromStr;

#[derive(Clone, Debug, PartialEq)]
pub struct AccountSpec {
    pub address: Address,
    pub balance: U256,
    pub nonce: u64,
    pub code: Bytes,
    pub storage: Vec<(U256, U256)>,
}

#[derive(Clone, Debug, PartialEq)]
pub struct AuthSpec {
    pub chain_id: u64,
    pub address: Address,
    pub nonce: u64,
    /// `None` models an authorization whose signature does not recover.
    pub authority: Option<Address>,
}

#[derive(Clone, Debug, PartialEq)]
pub struct TxSpec {
    pub caller: Address,
    pub to: Option<Address>,
    pub value: U256,
    pub data: Bytes,
    pub gas_limit: u64,
    pub gas_price: u128,
    pub priority_fee: Option<u128>,
    pub nonce: u64,
    pub chain_id: Option<u64>,
    pub tx_type: u8,
    pub auths: Vec<AuthSpec>,
    pub access_list: Vec<(Address, Vec<B256>)>,
    /// EIP-4844 (transaction type 3): versioned blob hashes and the blob fee cap
    pub blob_hashes: Vec<B256>,
    pub max_fee_per_blob_gas: u128,
    /// Free-form label from the generator (what the transaction is meant to do); not semantic.
    pub label: String,
}

#[derive(Clone, Debug, PartialEq)]
pub struct BlockSpec {
    pub number: u64,
    pub beneficiary: Address,
    pub timestamp: u64,
    pub gas_limit: u64,
    pub basefee: u64,
    pub prevrandao: B256,
    pub difficulty: U256,
    /// EIP-4844 excess blob gas of the block (decides the blob gas price; 0 = price 1)
    pub excess_blob_gas: u64,
}

#[derive(Clone, Debug, PartialEq)]
pub struct EvmSpec {
    pub spec: SpecId,
    pub chain_id: u64,
    pub disable_nonce_check: bool,
}

#[derive(Clone, Debug, PartialEq)]
pub struct GrevmSpec {
    pub concurrency: usize,
    pub min_parallel_txs: usize,
    pub force_sequential: bool,
    pub forbid_delegated_create: bool,
    pub reserve_delegated_balance: bool,
}

#[derive(Clone, Debug, PartialEq)]
pub enum FaultKey {
    Basic(Address),
    Storage(Address, U256),
    Code(B256),
    BlockHash(u64),
    /// Any database call (used with `FaultMode::Nth`: the n-th call of the run).
    Any,
}

#[derive(Clone, Debug, PartialEq)]
pub enum FaultMode {
    Persistent,
    /// Fails the first matching call only.
    Once,
    /// Fails only the n-th matching call (0-based).
    Nth(u64),
}

#[derive(Clone, Debug, PartialEq)]
pub enum FaultAction {
    Error,
    Panic,
}

#[derive(Clone, Debug, PartialEq)]
pub struct FaultRule {
    pub key: FaultKey,
    pub mode: FaultMode,
    pub action: FaultAction,
    /// Bit mask over thread roles (1 << role); 0 = every role.
    pub roles: u8,
}

#[derive(Clone, Debug, PartialEq)]
pub enum PrecompileKind {
    /// Calldata-selected balance / sload / set_balance / sstore through the state facade.
    Bank,
    /// Like Bank for reads, and records every facade read into a side log tagged by attempt.
    Observer,
    /// Tries to write regardless of the static flag.
    StaticMutator,
    /// Performs a facade read and returns Ok even if the facade returned Err.
    FaultIgnorer,
    /// Performs a facade read and, if the facade returned Err, reports an error of its OWN (a halt)
    /// instead of the one the facade recorded.
    FaultRemapper,
    /// Fatal error iff storage slot (addr, slot) holds `value`; otherwise returns the slot value.
    FatalIf { addr: Address, slot: U256, value: U256 },
    /// Panics iff storage slot (addr, slot) holds `value`.
    PanicIf { addr: Address, slot: U256, value: U256 },
    /// Halts (out of gas style) always.
    Halter,
}

#[derive(Clone, Debug, PartialEq)]
pub struct PrecompileSpec {
    pub address: Address,
    pub kind: PrecompileKind,
}

#[derive(Clone, Debug, PartialEq)]
pub enum Entry {
    Execute,
    ParallelExecute(usize),
    FallbackSequential,
}

#[derive(Clone, Debug, PartialEq)]
pub struct Scenario {
    pub evm: EvmSpec,
    pub block: BlockSpec,
    pub pre_state: Vec<AccountSpec>,
    pub block_hashes: Vec<(u64, B256)>,
    pub txs: Vec<TxSpec>,
    pub grevm: GrevmSpec,
    /// Pre-insert every pre-state account (and storage) into the `ParallelState` cache.
    pub warm_cache: bool,
    pub bundle_update: bool,
    pub faults: Vec<FaultRule>,
    pub precompiles: Vec<PrecompileSpec>,
    /// Calls issued by each caller task; `callers[0]` is the main task. Default: one `Execute`.
    pub callers: Vec<Vec<Entry>>,
    /// Optional second block executed afterwards on the same `ParallelState`.
    pub second: Option<(BlockSpec, Vec<TxSpec>)>,
    /// Further consecutive blocks on the same state (history differential of C10 only: 3-4 blocks).
    pub later: Vec<(BlockSpec, Vec<TxSpec>)>,
    pub profile: String,
}

#[derive(Clone, Debug, PartialEq)]
pub struct SchedSpec {
    pub seed: u64,
    /// 0 uniform, 1 sticky, 2 pct, 3 starve
    pub strategy: u8,
    pub p1: u32,
    pub p2: u32,
    pub p3: u32,
    /// strict: parked tasks are never woken spuriously / by timeout.
    pub strict: bool,
    /// probability (per 1024 decisions) of choosing a spuriously-wakeable task when allowed.
    pub spurious_per_1024: u32,
    pub buggify: u32,
    /// random-phase decision budget, fair-phase decision budget
    pub n1: u64,
    pub n2: u64,
}

// ------------------------------------------------------------------------------------------------
// JSON (hand-written: hex strings for primitives)
// ------------------------------------------------------------------------------------------------

pub fn spec_name(spec: SpecId) -> &'static str {
    match spec {
        SpecId::FRONTIER => "FRONTIER",
        SpecId::HOMESTEAD => "HOMESTEAD",
        SpecId::TANGERINE => "TANGERINE",
        SpecId::SPURIOUS_DRAGON => "SPURIOUS_DRAGON",
        SpecId::BYZANTIUM => "BYZANTIUM",
        SpecId::PETERSBURG => "PETERSBURG",
        SpecId::ISTANBUL => "ISTANBUL",
        SpecId::BERLIN => "BERLIN",
        SpecId::LONDON => "LONDON",
        SpecId::MERGE => "MERGE",
        SpecId::SHANGHAI => "SHANGHAI",
        SpecId::CANCUN => "CANCUN",
        SpecId::PRAGUE => "PRAGUE",
        SpecId::OSAKA => "OSAKA",
        _ => "OTHER",
    }
}

pub const ALL_SPECS: [SpecId; 14] = [
    SpecId::FRONTIER,
    SpecId::HOMESTEAD,
    SpecId::TANGERINE,
    SpecId::SPURIOUS_DRAGON,
    SpecId::BYZANTIUM,
    SpecId::PETERSBURG,
    SpecId::ISTANBUL,
    SpecId::BERLIN,
    SpecId::LONDON,
    SpecId::MERGE,
    SpecId::SHANGHAI,
    SpecId::CANCUN,
    SpecId::PRAGUE,
    SpecId::OSAKA,
];

pub fn spec_from_name(name: &str) -> SpecId {
    ALL_SPECS.iter().copied().find(|s| spec_name(*s) == name).unwrap_or_else(|| panic!("unknown spec {name}"))
}

fn a(v: &Address) -> Value {
    json!(format!("{v:#x}"))
}
fn u(v: &U256) -> Value {
    json!(format!("{v:#x}"))
}
fn h(v: &B256) -> Value {
    json!(format!("{v:#x}"))
}
fn b(v: &Bytes) -> Value {
    json!(format!("{v:#x}"))
}
fn pa(v: &Value) -> Address {
    Address::from_str(v.as_str().expect("address string")).expect("address")
}
fn pu(v: &Value) -> U256 {
    U256::from_str(v.as_str().expect("u256 string")).expect("u256")
}
fn ph(v: &Value) -> B256 {
    B256::from_str(v.as_str().expect("b256 string")).expect("b256")
}
fn pb(v: &Value) -> Bytes {
    Bytes::from_str(v.as_str().expect("bytes string")).expect("bytes")
}
fn pn(v: &Value) -> u64 {
    v.as_u64().unwrap_or_else(|| panic!("expected number, got {v}"))
}

impl AccountSpec {
    pub fn to_json(&self) -> Value {
        json!({
            "address": a(&self.address), "balance": u(&self.balance), "nonce": self.nonce,
            "code": b(&self.code),
            "storage": self.storage.iter().map(|(k, v)| json!([u(k), u(v)])).collect::<Vec<_>>(),
        })
    }
    pub fn from_json(v: &Value) -> Self {
        Self {
            address: pa(&v["address"]),
            balance: pu(&v["balance"]),
            nonce: pn(&v["nonce"]),
            code: pb(&v["code"]),
            storage: v["storage"].as_array().unwrap().iter().map(|e| (pu(&e[0]), pu(&e[1]))).collect(),
        }
    }
}

impl TxSpec {
    pub fn to_json(&self) -> Value {
        json!({
            "caller": a(&self.caller),
            "to": self.to.as_ref().map(a),
            "value": u(&self.value),
            "data": b(&self.data),
            "gas_limit": self.gas_limit,
            "gas_price": self.gas_price.to_string(),
            "priority_fee": self.priority_fee.map(|p| p.to_string()),
            "nonce": self.nonce,
            "chain_id": self.chain_id,
            "tx_type": self.tx_type,
            "auths": self.auths.iter().map(|x| json!({
                "chain_id": x.chain_id, "address": a(&x.address), "nonce": x.nonce,
                "authority": x.authority.as_ref().map(a)})).collect::<Vec<_>>(),
            "access_list": self.access_list.iter().map(|(ad, keys)| json!([a(ad), keys.iter().map(h).collect::<Vec<_>>()])).collect::<Vec<_>>(),
            "blob_hashes": self.blob_hashes.iter().map(h).collect::<Vec<_>>(),
            "max_fee_per_blob_gas": self.max_fee_per_blob_gas.to_string(),
            "label": self.label,
        })
    }
    pub fn from_json(v: &Value) -> Self {
        Self {
            // both absent in replay files written before blob transactions existed
            blob_hashes: v["blob_hashes"].as_array().map(|l| l.iter().map(ph).collect()).unwrap_or_default(),
            max_fee_per_blob_gas: v["max_fee_per_blob_gas"].as_str().map(|s| s.parse().unwrap()).unwrap_or(0),
            caller: pa(&v["caller"]),
            to: if v["to"].is_null() { None } else { Some(pa(&v["to"])) },
            value: pu(&v["value"]),
            data: pb(&v["data"]),
            gas_limit: pn(&v["gas_limit"]),
            gas_price: v["gas_price"].as_str().unwrap().parse().unwrap(),
            priority_fee: v["priority_fee"].as_str().map(|s| s.parse().unwrap()),
            nonce: pn(&v["nonce"]),
            chain_id: v["chain_id"].as_u64(),
            tx_type: pn(&v["tx_type"]) as u8,
            auths: v["auths"]
                .as_array()
                .unwrap()
                .iter()
                .map(|x| AuthSpec {
                    chain_id: pn(&x["chain_id"]),
                    address: pa(&x["address"]),
                    nonce: pn(&x["nonce"]),
                    authority: if x["authority"].is_null() { None } else { Some(pa(&x["authority"])) },
                })
                .collect(),
            access_list: v["access_list"]
                .as_array()
                .unwrap()
                .iter()
                .map(|e| (pa(&e[0]), e[1].as_array().unwrap().iter().map(ph).collect()))
                .collect(),
            label: v["label"].as_str().unwrap_or("").to_string(),
        }
    }
}

impl BlockSpec {
    pub fn to_json(&self) -> Value {
        json!({
            "number": self.number, "beneficiary": a(&self.beneficiary), "timestamp": self.timestamp,
            "gas_limit": self.gas_limit, "basefee": self.basefee, "prevrandao": h(&self.prevrandao),
            "difficulty": u(&self.difficulty), "excess_blob_gas": self.excess_blob_gas,
        })
    }
    pub fn from_json(v: &Value) -> Self {
        Self {
            number: pn(&v["number"]),
            beneficiary: pa(&v["beneficiary"]),
            timestamp: pn(&v["timestamp"]),
            gas_limit: pn(&v["gas_limit"]),
            basefee: pn(&v["basefee"]),
            prevrandao: ph(&v["prevrandao"]),
            difficulty: pu(&v["difficulty"]),
            excess_blob_gas: v["excess_blob_gas"].as_u64().unwrap_or(0),
        }
    }
}

impl FaultRule {
    pub fn to_json(&self) -> Value {
        let key = match &self.key {
            FaultKey::Basic(ad) => json!({"basic": a(ad)}),
            FaultKey::Storage(ad, s) => json!({"storage": [a(ad), u(s)]}),
            FaultKey::Code(c) => json!({"code": h(c)}),
            FaultKey::BlockHash(n) => json!({"block_hash": n}),
            FaultKey::Any => json!("any"),
        };
        let mode = match &self.mode {
            FaultMode::Persistent => json!("persistent"),
            FaultMode::Once => json!("once"),
            FaultMode::Nth(n) => json!({"nth": n}),
        };
        json!({"key": key, "mode": mode, "action": if self.action == FaultAction::Error {"error"} else {"panic"}, "roles": self.roles})
    }
    pub fn from_json(v: &Value) -> Self {
        let k = &v["key"];
        let key = if k.is_string() {
            FaultKey::Any
        } else if !k["basic"].is_null() {
            FaultKey::Basic(pa(&k["basic"]))
        } else if !k["storage"].is_null() {
            FaultKey::Storage(pa(&k["storage"][0]), pu(&k["storage"][1]))
        } else if !k["code"].is_null() {
            FaultKey::Code(ph(&k["code"]))
        } else {
            FaultKey::BlockHash(pn(&k["block_hash"]))
        };
        let m = &v["mode"];
        let mode = match m.as_str() {
            Some("persistent") => FaultMode::Persistent,
            Some("once") => FaultMode::Once,
            _ => FaultMode::Nth(pn(&m["nth"])),
        };
        Self {
            key,
            mode,
            action: if v["action"].as_str() == Some("panic") { FaultAction::Panic } else { FaultAction::Error },
            roles: pn(&v["roles"]) as u8,
        }
    }
}

impl PrecompileSpec {
    pub fn to_json(&self) -> Value {
        let kind = match &self.kind {
            PrecompileKind::Bank => json!("bank"),
            PrecompileKind::Observer => json!("observer"),
            PrecompileKind::StaticMutator => json!("static_mutator"),
            PrecompileKind::FaultIgnorer => json!("fault_ignorer"),
            PrecompileKind::FaultRemapper => json!("fault_remapper"),
            PrecompileKind::Halter => json!("halter"),
            PrecompileKind::FatalIf { addr, slot, value } => json!({"fatal_if": [a(addr), u(slot), u(value)]}),
            PrecompileKind::PanicIf { addr, slot, value } => json!({"panic_if": [a(addr), u(slot), u(value)]}),
        };
        json!({"address": a(&self.address), "kind": kind})
    }
    pub fn from_json(v: &Value) -> Self {
        let k = &v["kind"];
        let kind = match k.as_str() {
            Some("bank") => PrecompileKind::Bank,
            Some("observer") => PrecompileKind::Observer,
            Some("static_mutator") => PrecompileKind::StaticMutator,
            Some("fault_ignorer") => PrecompileKind::FaultIgnorer,
            Some("fault_remapper") => PrecompileKind::FaultRemapper,
            Some("halter") => PrecompileKind::Halter,
            _ => {
                if !k["fatal_if"].is_null() {
                    let x = &k["fatal_if"];
                    PrecompileKind::FatalIf { addr: pa(&x[0]), slot: pu(&x[1]), value: pu(&x[2]) }
                } else {
                    let x = &k["panic_if"];
                    PrecompileKind::PanicIf { addr: pa(&x[0]), slot: pu(&x[1]), value: pu(&x[2]) }
                }
            }
        };
        Self { address: pa(&v["address"]), kind }
    }
}

fn entry_json(e: &Entry) -> Value {
    match e {
        Entry::Execute => json!("execute"),
        Entry::ParallelExecute(k) => json!({"parallel_execute": k}),
        Entry::FallbackSequential => json!("fallback_sequential"),
    }
}

fn entry_from(v: &Value) -> Entry {
    match v.as_str() {
        Some("execute") => Entry::Execute,
        Some("fallback_sequential") => Entry::FallbackSequential,
        _ => Entry::ParallelExecute(pn(&v["parallel_execute"]) as usize),
    }
}

impl Scenario {
    /// Placeholder scenario of component simulations (their real input lives in `ReplayFile::extra`).
    pub fn empty() -> Self {
        Self {
            evm: EvmSpec { spec: SpecId::SHANGHAI, chain_id: 1, disable_nonce_check: false },
            block: BlockSpec { number: 0, beneficiary: Address::ZERO, timestamp: 0, gas_limit: 0, basefee: 0, prevrandao: B256::ZERO, difficulty: U256::ZERO, excess_blob_gas: 0 },
            pre_state: vec![],
            block_hashes: vec![],
            txs: vec![],
            grevm: GrevmSpec { concurrency: 1, min_parallel_txs: 0, force_sequential: false, forbid_delegated_create: false, reserve_delegated_balance: false },
            warm_cache: false,
            bundle_update: true,
            faults: vec![],
            precompiles: vec![],
            callers: vec![vec![Entry::Execute]],
            second: None,
            later: vec![],
            profile: "component".into(),
        }
    }

    pub fn to_json(&self) -> Value {
        json!({
            "profile": self.profile,
            "evm": {"spec": spec_name(self.evm.spec), "chain_id": self.evm.chain_id, "disable_nonce_check": self.evm.disable_nonce_check},
            "block": self.block.to_json(),
            "pre_state": self.pre_state.iter().map(|x| x.to_json()).collect::<Vec<_>>(),
            "block_hashes": self.block_hashes.iter().map(|(n, x)| json!([n, h(x)])).collect::<Vec<_>>(),
            "txs": self.txs.iter().map(|x| x.to_json()).collect::<Vec<_>>(),
            "grevm": {"concurrency": self.grevm.concurrency, "min_parallel_txs": self.grevm.min_parallel_txs,
                      "force_sequential": self.grevm.force_sequential,
                      "forbid_delegated_create": self.grevm.forbid_delegated_create,
                      "reserve_delegated_balance": self.grevm.reserve_delegated_balance},
            "warm_cache": self.warm_cache,
            "bundle_update": self.bundle_update,
            "faults": self.faults.iter().map(|x| x.to_json()).collect::<Vec<_>>(),
            "precompiles": self.precompiles.iter().map(|x| x.to_json()).collect::<Vec<_>>(),
            "callers": self.callers.iter().map(|c| c.iter().map(entry_json).collect::<Vec<_>>()).collect::<Vec<_>>(),
            "second": self.second.as_ref().map(|(blk, txs)| json!({"block": blk.to_json(), "txs": txs.iter().map(|x| x.to_json()).collect::<Vec<_>>()})),
            "later": self.later.iter().map(|(blk, txs)| json!({"block": blk.to_json(), "txs": txs.iter().map(|x| x.to_json()).collect::<Vec<_>>()})).collect::<Vec<_>>(),
        })
    }

    pub fn from_json(v: &Value) -> Self {
        Self {
            profile: v["profile"].as_str().unwrap_or("").to_string(),
            evm: EvmSpec {
                spec: spec_from_name(v["evm"]["spec"].as_str().unwrap()),
                chain_id: pn(&v["evm"]["chain_id"]),
                disable_nonce_check: v["evm"]["disable_nonce_check"].as_bool().unwrap(),
            },
            block: BlockSpec::from_json(&v["block"]),
            pre_state: v["pre_state"].as_array().unwrap().iter().map(AccountSpec::from_json).collect(),
            block_hashes: v["block_hashes"].as_array().unwrap().iter().map(|e| (pn(&e[0]), ph(&e[1]))).collect(),
            txs: v["txs"].as_array().unwrap().iter().map(TxSpec::from_json).collect(),
            grevm: GrevmSpec {
                concurrency: pn(&v["grevm"]["concurrency"]) as usize,
                min_parallel_txs: pn(&v["grevm"]["min_parallel_txs"]) as usize,
                force_sequential: v["grevm"]["force_sequential"].as_bool().unwrap(),
                forbid_delegated_create: v["grevm"]["forbid_delegated_create"].as_bool().unwrap(),
                reserve_delegated_balance: v["grevm"]["reserve_delegated_balance"].as_bool().unwrap(),
            },
            warm_cache: v["warm_cache"].as_bool().unwrap(),
            bundle_update: v["bundle_update"].as_bool().unwrap(),
            faults: v["faults"].as_array().unwrap().iter().map(FaultRule::from_json).collect(),
            precompiles: v["precompiles"].as_array().unwrap().iter().map(PrecompileSpec::from_json).collect(),
            callers: v["callers"].as_array().unwrap().iter().map(|c| c.as_array().unwrap().iter().map(entry_from).collect()).collect(),
            second: if v["second"].is_null() {
                None
            } else {
                Some((
                    BlockSpec::from_json(&v["second"]["block"]),
                    v["second"]["txs"].as_array().unwrap().iter().map(TxSpec::from_json).collect(),
                ))
            },
            // absent in replay files written before the field existed
            later: v["later"]
                .as_array()
                .map(|l| l.iter().map(|b| (BlockSpec::from_json(&b["block"]), b["txs"].as_array().unwrap().iter().map(TxSpec::from_json).collect())).collect())
                .unwrap_or_default(),
        }
    }
}

impl SchedSpec {
    pub fn to_json(&self) -> Value {
        json!({"seed": self.seed.to_string(), "strategy": self.strategy, "p1": self.p1, "p2": self.p2, "p3": self.p3,
               "strict": self.strict, "spurious_per_1024": self.spurious_per_1024, "buggify": self.buggify,
               "n1": self.n1, "n2": self.n2})
    }
    pub fn from_json(v: &Value) -> Self {
        Self {
            seed: v["seed"].as_str().unwrap().parse().unwrap(),
            strategy: pn(&v["strategy"]) as u8,
            p1: pn(&v["p1"]) as u32,
            p2: pn(&v["p2"]) as u32,
            p3: pn(&v["p3"]) as u32,
            strict: v["strict"].as_bool().unwrap(),
            spurious_per_1024: pn(&v["spurious_per_1024"]) as u32,
            buggify: pn(&v["buggify"]) as u32,
            n1: pn(&v["n1"]),
            n2: pn(&v["n2"]),
        }
    }
}
