//! Process-wide panic hook: injected panics and engine verdict panics are expected events of a
//! simulation; they are recorded, not printed (unless VERIF_VERBOSE is set).

use std::sync::Once;
use std::sync::atomic::{AtomicU64, Ordering};

pub static PANICS_SEEN: AtomicU64 = AtomicU64::new(0);

pub fn ensure_installed() {
    static INIT: Once = Once::new();
    INIT.call_once(|| {
        // glibc malloc: 16 simulator threads allocating and freeing 32 KiB EVM stacks make the
        // per-thread arenas grow and trim continuously (mprotect/madvise under the process-wide
        // mmap lock). Keep freed memory in the arenas instead.
        unsafe extern "C" {
            fn mallopt(param: i32, value: i32) -> i32;
        }
        unsafe {
            mallopt(-1, 1 << 30); // M_TRIM_THRESHOLD
            mallopt(-2, 64 << 20); // M_TOP_PAD
            mallopt(-3, 1 << 30); // M_MMAP_THRESHOLD
        }
        // Bundle extraction runs on rayon outside the controlled schedule; keep its global pool small
        // so idle rayon workers do not spin next to 16 simulator threads. (The result must not depend
        // on the pool size; VERIF_RAYON_THREADS varies it.)
        let rayon_threads = std::env::var("VERIF_RAYON_THREADS").ok().and_then(|s| s.parse().ok()).unwrap_or(2usize);
        let _ = rayon::ThreadPoolBuilder::new().num_threads(rayon_threads).build_global();
        // Let the engine install (and forever forget about) its own hook first: run one trivial
        // execution, then replace the hook with ours.
        let runner = shuttle_engine::Runner::new(Warmup(false), {
            let mut c = shuttle_engine::Config::new();
            c.failure_persistence = shuttle_engine::FailurePersistence::None;
            c
        });
        runner.run(|| {});
        let verbose = std::env::var_os("VERIF_VERBOSE").is_some();
        std::panic::set_hook(Box::new(move |info| {
            PANICS_SEEN.fetch_add(1, Ordering::Relaxed);
            if verbose {
                eprintln!("[panic] {info}");
            }
        }));
    });
}

/// One-time lazy initialisation inside revm / alloy / grevm (precompile tables per hardfork, instruction
/// tables, ...) builds hash containers, and building a hash container draws from the deterministic
/// per-thread seed counters. If that happened in the middle of a measured run, the run would see other
/// hasher seeds (other iteration orders, hence another schedule) than the same case in a process where
/// the initialisation had already happened - in particular than its own replay in a fresh process.
/// So every process first executes a small block on every hardfork three ways (stock revm, Grevm's
/// sequential path, one simulated parallel run); `selfcheck determinism` re-runs cases as the only case
/// of a fresh process to detect anything this misses.
pub fn warm_up() {
    static INIT: Once = Once::new();
    ensure_installed();
    INIT.call_once(|| {
        use crate::workload::{self, GenOptions, Profile};
        for (i, spec) in crate::scenario::ALL_SPECS.iter().enumerate() {
            for profile in [Profile::Mixed, Profile::Precompile] {
                let opts = GenOptions { profile, max_txs: 3, max_workers: 2, two_blocks: false, specs: vec![*spec] };
                let scenario = std::sync::Arc::new(workload::generate(0x77a2_0000 + i as u64, &opts));
                let sched = crate::checks::sched_for(1, i as u64, crate::checks::SchedMode::Strict);
                let _ = crate::oracle::run_relation_case(&scenario, &sched, None, &crate::oracle::PipelineWant::default());
                let _ = crate::oracle::run_pipeline_case(&scenario, &sched, None, &crate::oracle::PipelineWant::default());
            }
        }
    });
}

struct Warmup(bool);

impl shuttle_engine::scheduler::Scheduler for Warmup {
    fn new_execution(&mut self) -> Option<shuttle_engine::scheduler::Schedule> {
        if self.0 {
            None
        } else {
            self.0 = true;
            Some(shuttle_engine::scheduler::Schedule::new(0))
        }
    }
    fn next_task(
        &mut self,
        runnable: &[&shuttle_engine::scheduler::Task],
        _current: Option<shuttle_engine::scheduler::TaskId>,
        _is_yielding: bool,
    ) -> Option<shuttle_engine::scheduler::TaskId> {
        Some(runnable[0].id())
    }
    fn next_u64(&mut self) -> u64 {
        0
    }
}
