//! C10 (b): concurrent cache-filling readers vs an in-order committer on the production
//! `ParallelStateView` / `ParallelStateCommit` (driver: `grevm::verif::drivers::parallel_state_readers`).
//! The history is real journal output: a generated block executed by stock revm, whose per-transaction
//! `EvmState`s are committed in order while 1-3 reader tasks read accounts, slots and code.
//! Oracles: every read value equals the reference value after c commits for some c between "commits
//! completed when the read started" and "commits started when it returned"; afterwards every key reads
//! as revm `State` driven by the same history; the bundle equals revm's.

use crate::batch::CaseRecord;
use crate::checks::{self, SchedMode, Tier};
use crate::compare::diff_bundles;
use crate::oracle::{CaseStats, Finding};
use crate::prng::{Prng, derive};
use crate::reference;
use crate::run::{self, Verdict};
use crate::scenario::{Scenario, SchedSpec};
use crate::simdb::{ReadKey, SimDb};
use crate::simsched::Trace;
use crate::workload::{self, GenOptions, Profile};
use grevm::verif::drivers::{ReadOp, ReadRecord, ReadVal, parallel_state_readers, read_through};
use grevm::{ParallelState, ParallelTakeBundle};
use revm::DatabaseCommit;
use revm_database::states::bundle_state::BundleRetention;
use serde_json::json;
use std::collections::BTreeSet;
use std::sync::Arc;

pub struct Plan {
    pub scenario: Arc<Scenario>,
    pub sched: SchedSpec,
    pub readers: usize,
    pub reads_per_reader: usize,
    pub read_seed: u64,
}

pub fn plan(seed: u64, idx: u64, tier: Tier) -> Plan {
    let mut rng = Prng::new(derive(seed, 0x57a7_0000 ^ idx.wrapping_mul(0x9E37)));
    let profile = [Profile::Lifecycle, Profile::Lifecycle, Profile::Mixed, Profile::Code, Profile::Conflict][rng.below(5) as usize];
    let opts = GenOptions { profile, max_txs: if tier == Tier::Quick { 5 } else { 8 }, max_workers: 1, two_blocks: false, specs: vec![] };
    let mut scenario = workload::generate(derive(seed, 0x57a8_0000 ^ idx), &opts);
    scenario.warm_cache = false;
    scenario.faults.clear();
    scenario.precompiles.clear();
    let mut sched = checks::sched_for(seed, idx, SchedMode::Any);
    sched.strict = true;
    sched.spurious_per_1024 = 0;
    Plan { scenario: Arc::new(scenario), sched, readers: rng.range(1, 3) as usize, reads_per_reader: rng.range(3, 12) as usize, read_seed: rng.next_u64() }
}

fn op_of(k: &ReadKey) -> Option<ReadOp> {
    match k {
        ReadKey::Basic(a) => Some(ReadOp::Basic(*a)),
        ReadKey::Storage(a, s) => Some(ReadOp::Storage(*a, *s)),
        ReadKey::Code(h) => Some(ReadOp::Code(*h)),
        ReadKey::BlockHash(_) => None,
    }
}

/// Read `op` through revm State's `Database` interface (the reference for "readable through the state").
fn ref_read(state: &mut reference::RefState<'_>, op: &ReadOp) -> ReadVal {
    match op {
        ReadOp::Basic(a) => match revm::Database::basic(state, *a) {
            Ok(i) => ReadVal::Basic(i.map(|i| (i.balance, i.nonce, i.code_hash))),
            Err(_) => ReadVal::Error("basic".into()),
        },
        ReadOp::Storage(a, k) => match revm::Database::storage(state, *a, *k) {
            Ok(v) => ReadVal::Storage(v),
            Err(_) => ReadVal::Error("storage".into()),
        },
        ReadOp::Code(h) => match revm::Database::code_by_hash(state, *h) {
            Ok(c) => ReadVal::Code(c.original_bytes()),
            Err(_) => ReadVal::Error("code".into()),
        },
    }
}

pub struct Output {
    pub findings: Vec<Finding>,
    pub harness: Vec<String>,
    pub stats: CaseStats,
    pub trace: Option<Trace>,
    pub summary: String,
}

pub fn run_case(p: &Plan, replay: Option<Trace>, record_trace: bool) -> Output {
    run::reset_hash_seeds(p.sched.seed);
    let s: &Scenario = &p.scenario;
    // ---- history: real journal output of the in-order reference
    let gen_db = SimDb::from_scenario(s, false, true);
    let mut gen_state = reference::new_ref_state(&gen_db, true);
    let block = reference::run_reference_block(&mut gen_state, &s.evm, &s.block, &s.txs, &[], true);
    let ref_bundle = reference::take_ref_bundle(&mut gen_state, BundleRetention::Reverts);
    let history: Vec<revm_state::EvmState> = block.raw.iter().flatten().cloned().collect();
    // keys of interest: everything the reference read plus every changed slot
    let mut keys: BTreeSet<ReadKey> = gen_db.read_log.as_ref().unwrap().lock().unwrap().iter().cloned().collect();
    for st in &history {
        for (a, acc) in st.iter() {
            keys.insert(ReadKey::Basic(*a));
            for (k, _) in acc.storage.iter() {
                keys.insert(ReadKey::Storage(*a, *k));
            }
        }
    }
    drop(gen_state);
    let ops: Vec<ReadOp> = keys.iter().filter_map(op_of).collect();
    let mut stats = CaseStats { txs: history.len(), ..CaseStats::default() };
    if ops.is_empty() || history.is_empty() {
        stats.completed = true;
        return Output { findings: vec![], harness: vec![], stats, trace: None, summary: "empty history".into() };
    }
    // ---- reference table: value of every op after c commits, c = 0..=n
    let table_db = SimDb::from_scenario(s, false, false);
    let mut table_state = reference::new_ref_state(&table_db, true);
    let _ = revm::DatabaseRef::basic_ref(&table_state, s.block.beneficiary);
    let mut table: Vec<Vec<ReadVal>> = Vec::with_capacity(history.len() + 1);
    for c in 0..=history.len() {
        table.push(ops.iter().map(|op| ref_read(&mut table_state, op)).collect());
        if c < history.len() {
            table_state.commit(history[c].clone());
        }
    }
    // ---- read plans
    let mut rng = Prng::new(p.read_seed);
    let reads: Vec<Vec<ReadOp>> =
        (0..p.readers).map(|_| (0..p.reads_per_reader).map(|_| ops[rng.below(ops.len() as u64) as usize].clone()).collect()).collect();

    // ---- simulated run
    let scenario = Arc::clone(&p.scenario);
    let hist = history.clone();
    let reads_for_body = reads.clone();
    let body: run::CustomBody = Arc::new(move || {
        let db = Arc::new(SimDb::from_scenario(&scenario, false, false));
        let mut state = ParallelState::new(Arc::clone(&db), true, false);
        // the scheduler loads the fee recipient before workers start; mirror it
        let _ = revm::DatabaseRef::basic_ref(&state, scenario.block.beneficiary);
        // Re-create the history's maps INSIDE the simulated run: their iteration order (which the
        // committer and `commit` follow) depends on the hasher seed a map got when it was built, and
        // maps built by the caller thread inherit whatever that thread's seed counter was after any
        // one-time lazy initialisation (precompile tables, ...) - the first run of a process would then
        // take another schedule than every later run and than the replay in a fresh process.
        let hist_in_sim: Vec<revm_state::EvmState> = hist.iter().map(|m| m.iter().map(|(k, v)| (*k, v.clone())).collect()).collect();
        let records = parallel_state_readers(&mut state, hist_in_sim, &reads_for_body);
        Box::new((records, state)) as Box<dyn std::any::Any + Send>
    });
    let r = run::run_custom(body, &p.sched, replay, record_trace);
    if let Some(log) = &r.log {
        for (i, (task, site)) in log.iter().enumerate() {
            eprintln!("LOG {i} task={task} site={site:08x}");
        }
        eprintln!("LOG END");
    }
    stats.decisions = r.sched.decisions;
    stats.steps = r.steps;
    stats.context_switches = r.sched.context_switches;
    stats.preemptions = r.sched.preemptions;
    stats.pauses_applied = r.sched.pauses_applied;
    stats.starve_applied = r.sched.starve_applied;
    stats.rt_faults = r.fault_counts;
    stats.trace_hash = r.trace_hash;
    let mut findings = Vec::new();
    let mut harness = Vec::new();
    let mut summary = String::new();
    match r.verdict {
        Verdict::CustomCompleted => {
            stats.completed = true;
            let Some(out) = r.custom.and_then(|b| b.downcast::<(Vec<ReadRecord>, ParallelState<Arc<SimDb>>)>().ok()) else {
                harness.push("state-readers report missing".into());
                return Output { findings, harness, stats, trace: None, summary };
            };
            let (records, mut state) = *out;
            let mut overlapping = 0u64;
            let mut h = 0xcbf2_9ce4_8422_2325u64;
            for rec in &records {
                let i = ops.iter().position(|o| *o == rec.op).unwrap();
                let lo = rec.commits_before.min(history.len());
                let hi = rec.commits_after.min(history.len());
                if hi > lo {
                    overlapping += 1;
                }
                h ^= ((lo as u64) << 8 | hi as u64).wrapping_mul(0x9E37_79B9_7F4A_7C15);
                h = h.rotate_left(7);
                let ok = (lo..=hi).any(|c| table[c][i] == rec.value);
                if !ok && findings.is_empty() {
                    findings.push(Finding {
                        property: "C10",
                        class: "reader.value_not_attributable".into(),
                        detail: format!(
                            "reader {} read {:?} = {:?} while {}..{} commits were applied; in-order values there: {:?}",
                            rec.reader,
                            rec.op,
                            rec.value,
                            lo,
                            hi,
                            (lo..=hi).map(|c| &table[c][i]).collect::<Vec<_>>()
                        ),
                    });
                }
            }
            // what the state serves afterwards
            for (i, op) in ops.iter().enumerate() {
                let served = read_through(&state, op);
                if served != table[history.len()][i] {
                    let class = match op {
                        ReadOp::Storage(..) => "readback.storage",
                        ReadOp::Basic(_) => "readback.basic",
                        ReadOp::Code(_) => "readback.code",
                    };
                    findings.push(Finding {
                        property: "C10",
                        class: class.into(),
                        detail: format!("after {} commits and concurrent reads the state serves {op:?} = {served:?}, revm State serves {:?}", history.len(), table[history.len()][i]),
                    });
                    break;
                }
            }
            let bundle = crate::oracle::take_bundle_checked(&mut state, BundleRetention::Reverts, &mut findings);
            if block.error.is_none() && let Some(d) = diff_bundles(&bundle, &ref_bundle) {
                findings.push(Finding { property: "C10", class: "commit.bundle".into(), detail: d });
            }
            stats.nontrivial = overlapping > 0;
            stats.behaviour = h;
            stats.workload = vec![("probe.reads_overlapping_a_commit", overlapping), ("probe.reads", records.len() as u64), ("probe.history_commits", history.len() as u64)];
            summary = format!("{} commits, {} reads ({} overlapping a commit)", history.len(), records.len(), overlapping);
        }
        Verdict::Deadlock(m) => findings.push(Finding { property: "C10", class: "readers.deadlock".into(), detail: m }),
        Verdict::StepBound => findings.push(Finding { property: "C10", class: "readers.no_progress".into(), detail: "did not finish in the fair phase".into() }),
        Verdict::HarnessError(m) => harness.push(m),
        Verdict::Completed(_) => harness.push("pipeline result in a component case".into()),
    }
    Output { findings, harness, stats, trace: record_trace.then_some(r.sched.trace), summary }
}

pub fn case_record(tier: Tier, seed: u64, idx: u64) -> CaseRecord {
    let p = plan(seed, idx, tier);
    let out = run_case(&p, None, false);
    let sample = (idx < 2).then(|| json!({"component": "state-readers", "profile": p.scenario.profile, "txs": p.scenario.txs.iter().map(|t| t.label.clone()).collect::<Vec<_>>(), "readers": p.readers, "reads_per_reader": p.reads_per_reader, "result": out.summary}));
    CaseRecord { idx, findings: out.findings, harness_errors: out.harness, stats: out.stats, sample, group: "state-readers" }
}

fn minimise(seed: u64, idx: u64, p: &Plan, finding: &Finding, deadline: std::time::Instant) -> crate::replayfile::ReplayFile {
    let class = finding.class.clone();
    let fails = |t: Option<Trace>, rec: bool| {
        let out = run_case(p, t, rec);
        out.findings.into_iter().find(|f| f.class == class).map(|f| (f, out.trace))
    };
    let mut detail = finding.detail.clone();
    let mut trace = Trace::default();
    if let Some((f, Some(t))) = fails(None, true) {
        detail = f.detail;
        trace = t;
    }
    if !trace.tasks.is_empty() && fails(Some(trace.clone()), false).is_some() {
        let (mut lo, mut hi) = (0usize, trace.tasks.len());
        while lo < hi && std::time::Instant::now() < deadline {
            let mid = (lo + hi) / 2;
            let cand = Trace { tasks: trace.tasks[..mid].to_vec(), randoms: trace.randoms.clone() };
            if fails(Some(cand), false).is_some() {
                hi = mid;
            } else {
                lo = mid + 1;
            }
        }
        let cand = Trace { tasks: trace.tasks[..hi].to_vec(), randoms: trace.randoms.clone() };
        if let Some((f, _)) = fails(Some(cand.clone()), false) {
            trace = cand;
            detail = f.detail;
        }
    }
    crate::replayfile::ReplayFile {
        check: "C10".into(),
        property: "C10".into(),
        class,
        detail,
        seed,
        case_index: idx,
        scenario: (*p.scenario).clone(),
        sched: p.sched.clone(),
        trace,
        extra: json!({"state_readers": {"readers": p.readers, "reads_per_reader": p.reads_per_reader, "read_seed": p.read_seed.to_string()}}),
    }
}

pub fn replay(file: &crate::replayfile::ReplayFile, path: &std::path::Path) -> i32 {
    let x = &file.extra["state_readers"];
    let p = Plan {
        scenario: Arc::new(file.scenario.clone()),
        sched: file.sched.clone(),
        readers: x["readers"].as_u64().unwrap() as usize,
        reads_per_reader: x["reads_per_reader"].as_u64().unwrap() as usize,
        read_seed: x["read_seed"].as_str().unwrap().parse().unwrap(),
    };
    let out = run_case(&p, Some(file.trace.clone()), false);
    println!("replay {}: {}", path.display(), out.summary);
    match out.findings.iter().find(|f| f.class == file.class) {
        Some(f) => {
            println!("VIOLATION property={} replay={} class={}", f.property, path.display(), f.class);
            println!("  detail={}", f.detail);
            1
        }
        None => {
            println!("replay did not reproduce the violation (class={})", file.class);
            if out.harness.is_empty() { 0 } else { 2 }
        }
    }
}

/// The component part of check C10. Returns (aggregate, wall, violations, known hits, exit).
pub fn run_batch(tier: Tier, seed: u64, runs: u64) -> (crate::batch::Aggregate, f64, u64, u64, i32) {
    let case = |idx: u64| case_record(tier, seed, idx);
    let (agg, wall) = crate::batch::run_batch(runs, checks::jobs(), 4, None, &case);
    let known = crate::known::load();
    let (mut exit, mut violations, mut known_hits) = (0, 0u64, 0u64);
    for (idx, e) in &agg.harness_errors {
        println!("HARNESS-ERROR check=C10 case={idx}: {e}");
        exit = 2;
    }
    let mut seen: Vec<String> = Vec::new();
    for (idx, f) in &agg.findings {
        if seen.contains(&f.class) {
            continue;
        }
        seen.push(f.class.clone());
        let p = plan(seed, *idx, tier);
        let file = minimise(seed, *idx, &p, f, std::time::Instant::now() + std::time::Duration::from_secs(30));
        let path = file.write();
        let exe = std::env::current_exe().unwrap();
        let reproduced = std::process::Command::new(exe)
            .arg("replay")
            .arg(&path)
            .output()
            .map(|o| o.status.code() == Some(1) && String::from_utf8_lossy(&o.stdout).contains(&format!("class={}", file.class)))
            .unwrap_or(false);
        if !reproduced {
            println!("HARNESS-ERROR check=C10 case={idx}: finding {} did not reproduce from {}", f.class, path.display());
            exit = 2;
            continue;
        }
        if let Some(k) = known.iter().find(|k| k.matches(&file)) &&
            k.status == "known"
        {
            println!("KNOWN-FINDING: property={} {} (class={}, replay={})", k.property, k.what, file.class, path.display());
            known_hits += 1;
            continue;
        }
        violations += 1;
        println!("VIOLATION property=C10 replay={}", path.display());
        println!("  class={} case={} detail={}", file.class, idx, file.detail.chars().take(700).collect::<String>());
        if exit == 0 {
            exit = 1;
        }
    }
    (agg, wall, violations, known_hits, exit)
}
