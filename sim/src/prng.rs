//! SplitMix64-seeded xoshiro256** — the single source of randomness of a run.

#[derive(Clone, Debug)]
pub struct Prng {
    s: [u64; 4],
}

pub fn splitmix(x: &mut u64) -> u64 {
    *x = x.wrapping_add(0x9E37_79B9_7F4A_7C15);
    let mut z = *x;
    z = (z ^ (z >> 30)).wrapping_mul(0xBF58_476D_1CE4_E5B9);
    z = (z ^ (z >> 27)).wrapping_mul(0x94D0_49BB_1331_11EB);
    z ^ (z >> 31)
}

/// Derive an independent stream seed from (seed, stream label).
pub fn derive(seed: u64, stream: u64) -> u64 {
    let mut x = seed ^ stream.wrapping_mul(0xD6E8_FEB8_6659_FD93);
    splitmix(&mut x) ^ splitmix(&mut x).rotate_left(17)
}

impl Prng {
    pub fn new(seed: u64) -> Self {
        let mut x = seed;
        Self { s: [splitmix(&mut x), splitmix(&mut x), splitmix(&mut x), splitmix(&mut x)] }
    }

    pub fn next_u64(&mut self) -> u64 {
        let result = self.s[1].wrapping_mul(5).rotate_left(7).wrapping_mul(9);
        let t = self.s[1] << 17;
        self.s[2] ^= self.s[0];
        self.s[3] ^= self.s[1];
        self.s[1] ^= self.s[2];
        self.s[0] ^= self.s[3];
        self.s[2] ^= t;
        self.s[3] = self.s[3].rotate_left(45);
        result
    }

    /// Uniform in 0..n (n > 0).
    pub fn below(&mut self, n: u64) -> u64 {
        debug_assert!(n > 0);
        ((self.next_u64() as u128 * n as u128) >> 64) as u64
    }

    pub fn range(&mut self, lo: u64, hi_inclusive: u64) -> u64 {
        lo + self.below(hi_inclusive - lo + 1)
    }

    pub fn chance(&mut self, num: u64, den: u64) -> bool {
        self.below(den) < num
    }

    pub fn pick<'a, T>(&mut self, items: &'a [T]) -> &'a T {
        &items[self.below(items.len() as u64) as usize]
    }

    pub fn pick_weighted(&mut self, weights: &[u32]) -> usize {
        let total: u64 = weights.iter().map(|w| *w as u64).sum();
        let mut x = self.below(total.max(1));
        for (i, w) in weights.iter().enumerate() {
            if x < *w as u64 {
                return i;
            }
            x -= *w as u64;
        }
        weights.len() - 1
    }

    pub fn shuffle<T>(&mut self, items: &mut [T]) {
        for i in (1..items.len()).rev() {
            let j = self.below(i as u64 + 1) as usize;
            items.swap(i, j);
        }
    }
}
