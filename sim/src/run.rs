//! Execute one `Scenario` under the simulator and collect everything the oracles need.

use crate::evmenv::{make_block, make_cfg, make_tx};
use crate::monitor::{self, Monitor};
use crate::precompiles::{self, PrecompileLog};
use crate::reference::RefStep;
use crate::scenario::{Entry, Scenario, SchedSpec};
use crate::simdb::{SimDb, SimPanic};
use crate::simsched::{Mode, SchedOut, SimScheduler, Trace};
use grevm::verif::rt;
use grevm::verif::sync::thread as sim_thread;
use grevm::{DelegatedSafetyConfig, GrevmConfig, ParallelState, Scheduler, TxExecutionOutcome};
use revm_context::result::EVMError;
use revm_database::PlainAccount;
use shuttle_engine::{Config, FailurePersistence, MaxSteps, Runner};
use std::cell::RefCell;
use std::panic::{AssertUnwindSafe, catch_unwind};
use std::rc::Rc;
use std::sync::{Arc, Mutex};

pub type SimScheduler_ = Scheduler<Arc<SimDb>>;

#[derive(Clone, Debug)]
pub enum CallOutcome {
    Ok,
    /// (txid, debug rendering of the EVMError, kind)
    Err { txid: usize, error: String, kind: ErrKind },
    /// The call panicked: rendering of the payload.
    Panic(PanicKind),
}

#[derive(Clone, Debug, PartialEq, Eq)]
pub enum ErrKind {
    Database,
    OnlyOnce,
    Custom,
    Other,
}

#[derive(Clone, Debug, PartialEq, Eq)]
pub enum PanicKind {
    /// An injected SimDb panic with its rule index.
    Injected(usize),
    /// An injected precompile panic.
    InjectedPrecompile,
    /// Anything else (assertion in production code, harness bug): message.
    Other(String),
}

#[derive(Clone, Debug)]
pub struct CallResult {
    pub caller: usize,
    pub entry: Entry,
    pub outcome: CallOutcome,
}

/// What the main task hands back when the simulated part completed.
pub struct BlockOutput {
    pub calls: Vec<CallResult>,
    pub outcomes: Vec<TxExecutionOutcome>,
    pub state: ParallelState<Arc<SimDb>>,
}

pub struct SimOutput {
    pub first: BlockOutput,
    /// Outcome of the optional second block, executed on the state returned by the first.
    pub second: Option<(Vec<CallResult>, Vec<TxExecutionOutcome>)>,
    pub db: Arc<SimDb>,
    pub precompile_log: Arc<PrecompileLog>,
}

pub enum Verdict {
    Completed(Box<SimOutput>),
    /// No runnable task while some are unfinished (strict mode: nobody could ever wake them).
    Deadlock(String),
    /// The fair phase exhausted its budget: livelock / stall.
    StepBound,
    /// The engine or the harness itself failed: never a verdict about the property.
    HarnessError(String),
}

pub struct SimResult {
    pub verdict: Verdict,
    pub sched: SchedOut,
    pub monitor: Monitor,
    pub steps: u64,
    pub trace_hash: u64,
    pub fault_counts: [u64; 16],
    pub log: Option<Vec<(u32, u32)>>,
}

#[derive(Clone, Default)]
pub struct RunOptions {
    pub record_trace: bool,
    pub record_log: bool,
    /// Reference steps for the online commit monitor (first block / second block).
    pub expected_first: Option<Arc<Vec<RefStep>>>,
    pub expected_second: Option<Arc<Vec<RefStep>>>,
}

pub fn grevm_config(s: &Scenario) -> GrevmConfig {
    GrevmConfig {
        concurrency_level: s.grevm.concurrency,
        force_sequential: s.grevm.force_sequential,
        min_parallel_txs: s.grevm.min_parallel_txs,
        delegated_safety: DelegatedSafetyConfig {
            forbid_delegated_create: s.grevm.forbid_delegated_create,
            reserve_delegated_balance: s.grevm.reserve_delegated_balance,
        },
    }
}

pub fn new_parallel_state(s: &Scenario, db: Arc<SimDb>) -> ParallelState<Arc<SimDb>> {
    let state = ParallelState::new(db, s.bundle_update, false);
    if s.warm_cache {
        for acc in &s.pre_state {
            let code_hash = crate::simdb::code_hash_of(&acc.code);
            let info = revm_state::AccountInfo {
                balance: acc.balance,
                nonce: acc.nonce,
                code_hash,
                account_id: None,
                code: (!acc.code.is_empty()).then(|| revm_state::Bytecode::new_raw(acc.code.clone())),
            };
            let plain = PlainAccount { info, storage: acc.storage.iter().copied().collect() };
            state.insert_account_with_storage(acc.address, plain.info, plain.storage);
        }
    }
    state
}

fn classify_panic(payload: &(dyn std::any::Any + Send)) -> PanicKind {
    if let Some(p) = payload.downcast_ref::<SimPanic>() {
        PanicKind::Injected(p.rule)
    } else if payload.downcast_ref::<precompiles::PrecompilePanic>().is_some() {
        PanicKind::InjectedPrecompile
    } else if let Some(s) = payload.downcast_ref::<&'static str>() {
        PanicKind::Other((*s).to_string())
    } else if let Some(s) = payload.downcast_ref::<String>() {
        PanicKind::Other(s.clone())
    } else {
        PanicKind::Other("<non-string payload>".into())
    }
}

fn do_call(scheduler: &SimScheduler_, caller: usize, entry: &Entry) -> CallResult {
    let r = catch_unwind(AssertUnwindSafe(|| match entry {
        Entry::Execute => scheduler.execute(),
        Entry::ParallelExecute(k) => scheduler.parallel_execute(Some(*k)),
        Entry::FallbackSequential => scheduler.fallback_sequential(),
    }));
    let outcome = match r {
        Ok(Ok(())) => CallOutcome::Ok,
        Ok(Err(e)) => {
            let kind = match &e.error {
                EVMError::Database(_) => ErrKind::Database,
                EVMError::Custom(msg) if msg.contains("can execute only once") => ErrKind::OnlyOnce,
                EVMError::Custom(_) => ErrKind::Custom,
                _ => ErrKind::Other,
            };
            CallOutcome::Err { txid: e.txid, error: format!("{:?}", e.error), kind }
        }
        Err(payload) => CallOutcome::Panic(classify_panic(payload.as_ref())),
    };
    CallResult { caller, entry: entry.clone(), outcome }
}

/// Run all callers of one block against one scheduler. Caller 0 is the current task; further callers
/// are extra tasks (concurrent entry).
fn run_callers(scheduler: &SimScheduler_, callers: &[Vec<Entry>]) -> Vec<CallResult> {
    if callers.len() <= 1 {
        let mut out = Vec::new();
        for e in callers.first().map(|c| c.as_slice()).unwrap_or(&[Entry::Execute]) {
            out.push(do_call(scheduler, 0, e));
        }
        return out;
    }
    let results: Mutex<Vec<(u64, CallResult)>> = Mutex::new(Vec::new());
    let me = rt::me();
    rt::set_role(me, rt::ROLE_AUX);
    sim_thread::scope(|scope| {
        for (idx, entries) in callers.iter().enumerate().skip(1) {
            let results = &results;
            scope.spawn(move || {
                rt::set_current_role(rt::ROLE_CALLER);
                for e in entries {
                    let r = do_call(scheduler, idx, e);
                    results.lock().unwrap().push((rt::steps(), r));
                }
            });
        }
        rt::set_role(me, rt::ROLE_CALLER);
        for e in &callers[0] {
            let r = do_call(scheduler, 0, e);
            results.lock().unwrap().push((rt::steps(), r));
        }
    });
    let mut v = results.into_inner().unwrap();
    v.sort_by_key(|(step, r)| (*step, r.caller));
    v.into_iter().map(|(_, r)| r).collect()
}

thread_local! {
    static ENGINE_WARM: std::cell::Cell<bool> = const { std::cell::Cell::new(false) };
}

pub fn engine_config(sched: &SchedSpec) -> Config {
    let mut config = Config::new();
    config.stack_size = 1 << 20;
    config.failure_persistence = FailurePersistence::None;
    config.max_steps = MaxSteps::FailAfter((sched.n1 + sched.n2) as usize);
    config.silence_warnings = true;
    config
}

/// Run one scenario under the simulator. Never panics: every failure is turned into a verdict.
pub fn run_sim(scenario: &Arc<Scenario>, sched: &SchedSpec, replay: Option<Trace>, opts: &RunOptions) -> SimResult {
    crate::hook::ensure_installed();
    let sched_out = Rc::new(RefCell::new(SchedOut::default()));
    let mode = match replay {
        Some(trace) => Mode::Replay(trace),
        None => Mode::Random,
    };
    let scheduler = SimScheduler::new(sched.clone(), mode, sched_out.clone(), opts.record_trace);
    let runner = Runner::new(scheduler, engine_config(sched));

    let slot: Arc<Mutex<Option<SimOutput>>> = Arc::new(Mutex::new(None));
    let finish: Arc<Mutex<Option<(u64, u64, [u64; 16], Option<Vec<(u32, u32)>>)>>> = Arc::new(Mutex::new(None));
    let body = {
        let scenario = Arc::clone(scenario);
        let slot = Arc::clone(&slot);
        let finish = Arc::clone(&finish);
        let opts = opts.clone();
        let buggify = sched.buggify;
        let seed = sched.seed;
        move || {
            // ---- everything below runs inside the main task of the simulated execution ----
            ahash::random_state::verif_reset_seed_counter(seed as usize | 1);
            rt::begin_run(opts.record_log, buggify);
            monitor::install(opts.expected_first.clone());
            let db = Arc::new(SimDb::from_scenario(&scenario, true, false));
            let precompile_log = Arc::new(PrecompileLog::default());
            let pcs = precompiles::build(&scenario.precompiles, &precompile_log);
            let pcs_arc = (!pcs.is_empty()).then(|| Arc::new(pcs));
            let state = new_parallel_state(&scenario, Arc::clone(&db));
            let txs = Arc::new(scenario.txs.iter().map(make_tx).collect::<Vec<_>>());
            let scheduler = Scheduler::new_with_runtime_config(
                make_cfg(&scenario.evm),
                make_block(&scenario.block),
                txs,
                state,
                pcs_arc.clone(),
                grevm_config(&scenario),
            );
            let calls = run_callers(&scheduler, &scenario.callers);
            let (outcomes, mut state) = scheduler.take_result_and_state();
            let mut second = None;
            if let Some((block2, txs2)) = &scenario.second {
                // Block boundary as an integration would do it: merge the first block's transitions,
                // then run the next block on the same state (its cache now holds whatever the first
                // block's speculative readers left behind).
                {
                    let _g = rt::no_switch();
                    state.merge_transitions(revm_database::states::bundle_state::BundleRetention::Reverts);
                }
                monitor::next_block(opts.expected_second.clone());
                let txs = Arc::new(txs2.iter().map(make_tx).collect::<Vec<_>>());
                let scheduler2 = Scheduler::new_with_runtime_config(
                    make_cfg(&scenario.evm),
                    make_block(block2),
                    txs,
                    state,
                    pcs_arc,
                    grevm_config(&scenario),
                );
                let calls2 = run_callers(&scheduler2, &[vec![Entry::Execute]]);
                let (outcomes2, state2) = scheduler2.take_result_and_state();
                state = state2;
                second = Some((calls2, outcomes2));
            }
            *finish.lock().unwrap() = Some((rt::steps(), rt::trace_hash(), rt::fault_counts(), rt::take_log()));
            rt::end_run();
            *slot.lock().unwrap() =
                Some(SimOutput { first: BlockOutput { calls, outcomes, state }, second, db, precompile_log });
        }
    };

    let run = catch_unwind(AssertUnwindSafe(|| runner.run(body)));
    let steps_in_failed_run = rt::steps();
    let hash_in_failed_run = rt::trace_hash();
    let faults_in_failed_run = rt::fault_counts();
    let log_in_failed_run = rt::take_log();
    rt::end_run();
    let monitor = monitor::take();
    let sched = std::mem::take(&mut *sched_out.borrow_mut());
    let finished = finish.lock().unwrap().take();
    let verdict = match run {
        Ok(_) => match slot.lock().unwrap().take() {
            Some(out) => Verdict::Completed(Box::new(out)),
            None => Verdict::HarnessError("execution ended without output".into()),
        },
        Err(payload) => {
            let msg = match classify_panic(payload.as_ref()) {
                PanicKind::Other(m) => m,
                other => format!("{other:?}"),
            };
            if msg.starts_with("deadlock!") {
                Verdict::Deadlock(msg)
            } else if msg.starts_with("exceeded max_steps") {
                Verdict::StepBound
            } else {
                Verdict::HarnessError(msg)
            }
        }
    };
    let (steps, trace_hash, fault_counts, log) = match finished {
        Some(f) => f,
        None => (steps_in_failed_run, hash_in_failed_run, faults_in_failed_run, log_in_failed_run),
    };
    SimResult { verdict, sched, monitor, steps, trace_hash, fault_counts, log }
}
