//! Execute one `Scenario` under the simulator and collect everything the oracles need.

use crate::evmenv::{make_block, make_cfg, make_tx};
use crate::monitor::{self, Monitor};
use crate::precompiles::{self, PrecompileLog};
use crate::reference::RefStep;
use crate::scenario::{Entry, Scenario, SchedSpec};
use crate::simdb::{SimDb, SimPanic};
use crate::simsched::{Mode, SchedOut, SimScheduler, Trace};
use grevm::verif::rt;
use grevm::verif::sync::thread as sim_thread;
use grevm::{DelegatedSafetyConfig, GrevmConfig, ParallelState, Scheduler, TxExecutionOutcome};
use revm_context::result::EVMError;
use revm_database::PlainAccount;
use shuttle_engine::{Config, FailurePersistence, MaxSteps, Runner};
use std::cell::RefCell;
use std::panic::{AssertUnwindSafe, catch_unwind};
use std::rc::Rc;
use std::sync::{Arc, Mutex};

pub type SimScheduler_ = Scheduler<Arc<SimDb>>;

#[derive(Clone, Debug)]
pub enum CallOutcome {
    Ok,
    /// (txid, debug rendering of the EVMError, kind)
    Err { txid: usize, error: String, kind: ErrKind },
    /// The call panicked: rendering of the payload.
    Panic(PanicKind),
}

#[derive(Clone, Debug, PartialEq, Eq)]
pub enum ErrKind {
    Database,
    OnlyOnce,
    Custom,
    Other,
}

#[derive(Clone, Debug, PartialEq, Eq)]
pub enum PanicKind {
    /// An injected SimDb panic with its rule index.
    Injected(usize),
    /// An injected precompile panic.
    InjectedPrecompile,
    /// Anything else (assertion in production code, harness bug): message.
    Other(String),
}

#[derive(Clone, Debug)]
pub struct CallResult {
    pub caller: usize,
    pub entry: Entry,
    pub outcome: CallOutcome,
}

/// What the main task hands back when the simulated part completed.
pub struct BlockOutput {
    pub calls: Vec<CallResult>,
    pub outcomes: Vec<TxExecutionOutcome>,
    pub state: ParallelState<Arc<SimDb>>,
}

pub struct SimOutput {
    pub first: BlockOutput,
    /// Outcome of the optional second block, executed on the state returned by the first.
    pub second: Option<(Vec<CallResult>, Vec<TxExecutionOutcome>)>,
    pub db: Arc<SimDb>,
    pub precompile_log: Arc<PrecompileLog>,
}

pub enum Verdict {
    Completed(Box<SimOutput>),
    /// a component simulation finished; its report is in `SimResult::custom`
    CustomCompleted,
    /// No runnable task while some are unfinished (strict mode: nobody could ever wake them).
    Deadlock(String),
    /// The fair phase exhausted its budget: livelock / stall.
    StepBound,
    /// The engine or the harness itself failed: never a verdict about the property.
    HarnessError(String),
}

pub struct SimResult {
    pub custom: Option<Box<dyn std::any::Any + Send>>,
    pub verdict: Verdict,
    pub sched: SchedOut,
    pub monitor: Monitor,
    pub steps: u64,
    pub trace_hash: u64,
    pub fault_counts: [u64; 16],
    pub log: Option<Vec<(u32, u32)>>,
}

#[derive(Clone, Default)]
pub struct RunOptions {
    pub record_trace: bool,
    pub record_log: bool,
    /// Reference steps for the online commit monitor (first block / second block).
    pub expected_first: Option<Arc<Vec<RefStep>>>,
    pub expected_second: Option<Arc<Vec<RefStep>>>,
}

/// Reset the deterministic hash-seed counters of the CALLING thread (maps built outside the simulated
/// execution — reference output, histories — get their hasher seeds from it).
pub fn reset_hash_seeds(seed: u64) {
    ahash::random_state::verif_reset_seed_counter(seed as usize | 1);
    foldhash::verif_reset_seed_counter(seed | 1);
}

pub fn grevm_config(s: &Scenario) -> GrevmConfig {
    GrevmConfig {
        concurrency_level: s.grevm.concurrency,
        force_sequential: s.grevm.force_sequential,
        min_parallel_txs: s.grevm.min_parallel_txs,
        delegated_safety: DelegatedSafetyConfig {
            forbid_delegated_create: s.grevm.forbid_delegated_create,
            reserve_delegated_balance: s.grevm.reserve_delegated_balance,
        },
    }
}

pub fn new_parallel_state(s: &Scenario, db: Arc<SimDb>) -> ParallelState<Arc<SimDb>> {
    let state = ParallelState::new(db, s.bundle_update, false);
    if s.warm_cache {
        for acc in &s.pre_state {
            let code_hash = crate::simdb::code_hash_of(&acc.code);
            let info = revm_state::AccountInfo {
                balance: acc.balance,
                nonce: acc.nonce,
                code_hash,
                account_id: None,
                code: (!acc.code.is_empty()).then(|| revm_state::Bytecode::new_raw(acc.code.clone())),
            };
            let plain = PlainAccount { info, storage: acc.storage.iter().copied().collect() };
            state.insert_account_with_storage(acc.address, plain.info, plain.storage);
        }
    }
    state
}

fn classify_panic(payload: &(dyn std::any::Any + Send)) -> PanicKind {
    if let Some(p) = payload.downcast_ref::<SimPanic>() {
        PanicKind::Injected(p.rule)
    } else if payload.downcast_ref::<precompiles::PrecompilePanic>().is_some() {
        PanicKind::InjectedPrecompile
    } else if let Some(s) = payload.downcast_ref::<&'static str>() {
        PanicKind::Other((*s).to_string())
    } else if let Some(s) = payload.downcast_ref::<String>() {
        PanicKind::Other(s.clone())
    } else {
        PanicKind::Other("<non-string payload>".into())
    }
}

fn do_call(scheduler: &SimScheduler_, caller: usize, entry: &Entry) -> CallResult {
    let r = catch_unwind(AssertUnwindSafe(|| match entry {
        Entry::Execute => scheduler.execute(),
        Entry::ParallelExecute(k) => scheduler.parallel_execute(Some(*k)),
        Entry::FallbackSequential => scheduler.fallback_sequential(),
    }));
    let outcome = match r {
        Ok(Ok(())) => CallOutcome::Ok,
        Ok(Err(e)) => {
            let kind = match &e.error {
                EVMError::Database(_) => ErrKind::Database,
                EVMError::Custom(msg) if msg.contains("can execute only once") => ErrKind::OnlyOnce,
                EVMError::Custom(_) => ErrKind::Custom,
                _ => ErrKind::Other,
            };
            CallOutcome::Err { txid: e.txid, error: format!("{:?}", e.error), kind }
        }
        Err(payload) => CallOutcome::Panic(classify_panic(payload.as_ref())),
    };
    CallResult { caller, entry: entry.clone(), outcome }
}

/// Run all callers of one block against one scheduler. Caller 0 is the current task; further callers
/// are extra tasks (concurrent entry).
fn run_callers(scheduler: &SimScheduler_, callers: &[Vec<Entry>]) -> Vec<CallResult> {
    if callers.len() <= 1 {
        let mut out = Vec::new();
        for e in callers.first().map(|c| c.as_slice()).unwrap_or(&[Entry::Execute]) {
            out.push(do_call(scheduler, 0, e));
        }
        return out;
    }
    let results: Mutex<Vec<(u64, CallResult)>> = Mutex::new(Vec::new());
    let me = rt::me();
    rt::set_role(me, rt::ROLE_AUX);
    sim_thread::scope(|scope| {
        for (idx, entries) in callers.iter().enumerate().skip(1) {
            let results = &results;
            scope.spawn(move || {
                rt::set_current_role(rt::ROLE_CALLER);
                for e in entries {
                    let r = do_call(scheduler, idx, e);
                    results.lock().unwrap().push((rt::steps(), r));
                }
            });
        }
        rt::set_role(me, rt::ROLE_CALLER);
        for e in &callers[0] {
            let r = do_call(scheduler, 0, e);
            results.lock().unwrap().push((rt::steps(), r));
        }
    });
    let mut v = results.into_inner().unwrap();
    v.sort_by_key(|(step, r)| (*step, r.caller));
    v.into_iter().map(|(_, r)| r).collect()
}

pub fn engine_config(max_steps: u64) -> Config {
    let mut config = Config::new();
    config.stack_size = 1 << 20;
    config.failure_persistence = FailurePersistence::None;
    config.max_steps = MaxSteps::FailAfter(max_steps as usize);
    config.silence_warnings = true;
    config
}

// ------------------------------------------------------------------------------------------------
// Engine threads. Every caller thread owns one engine OS thread that keeps a shuttle `Runner` (and
// its pool of coroutine stacks) alive across runs: the runner's scheduler pulls the next job in
// `new_execution()`. A run that ends in an engine panic (deadlock, step bound) tears the runner down;
// the engine thread reports the verdict and starts a fresh runner.
// ------------------------------------------------------------------------------------------------


/// Blocking single-slot hand-off (std mpsc spins with sched_yield before parking, which burns a core
/// per waiting thread when 16 caller threads wait for 16 engine threads).
pub struct Chan<T> {
    slot: Mutex<(std::collections::VecDeque<T>, bool)>,
    cv: std::sync::Condvar,
}

impl<T> Chan<T> {
    pub fn new() -> Arc<Self> {
        Arc::new(Self { slot: Mutex::new((std::collections::VecDeque::new(), false)), cv: std::sync::Condvar::new() })
    }
    pub fn send(&self, v: T) -> Result<(), T> {
        let mut g = self.slot.lock().unwrap();
        if g.1 {
            return Err(v);
        }
        g.0.push_back(v);
        self.cv.notify_one();
        Ok(())
    }
    pub fn close(&self) {
        let mut g = self.slot.lock().unwrap();
        g.1 = true;
        self.cv.notify_all();
    }
    pub fn recv(&self) -> Option<T> {
        let mut g = self.slot.lock().unwrap();
        loop {
            if let Some(v) = g.0.pop_front() {
                return Some(v);
            }
            if g.1 {
                return None;
            }
            g = self.cv.wait(g).unwrap();
        }
    }
}

struct CloseOnDrop<T>(Arc<Chan<T>>);
impl<T> Drop for CloseOnDrop<T> {
    fn drop(&mut self) {
        self.0.close();
    }
}

pub type CustomBody = Arc<dyn Fn() -> Box<dyn std::any::Any + Send> + Send + Sync>;

struct Job {
    custom: Option<CustomBody>,
    scenario: Arc<Scenario>,
    sched: SchedSpec,
    replay: Option<Trace>,
    opts: RunOptions,
    reply: Arc<Chan<SimResult>>,
}

struct Current {
    job: Job,
    sched_out: Rc<RefCell<SchedOut>>,
    inner: SimScheduler,
}

struct EngineState {
    rx: Arc<Chan<Job>>,
    current: Option<Current>,
    /// job received but requiring a different step bound: handed to the next runner
    pending: Option<Job>,
    max_steps: u64,
    closed: bool,
}

thread_local! {
    static SLOT: RefCell<Option<SimOutput>> = const { RefCell::new(None) };
    static FINISH: RefCell<Option<(u64, u64, [u64; 16], Option<Vec<(u32, u32)>>)>> = const { RefCell::new(None) };
    static BODY_INPUT: RefCell<Option<(Arc<Scenario>, RunOptions, u32, u64)>> = const { RefCell::new(None) };
    static CUSTOM_BODY: RefCell<Option<CustomBody>> = const { RefCell::new(None) };
    static CUSTOM_OUT: RefCell<Option<Box<dyn std::any::Any + Send>>> = const { RefCell::new(None) };
    static ENGINE: RefCell<Option<CloseOnDrop<Job>>> = const { RefCell::new(None) };
}

fn finalize(current: Current, failure: Option<String>) {
    let Current { job, sched_out, inner } = current;
    drop(inner);
    let steps_now = rt::steps();
    let hash_now = rt::trace_hash();
    let faults_now = rt::fault_counts();
    let log_now = rt::take_log();
    rt::end_run();
    let monitor = monitor::take();
    let sched = std::mem::take(&mut *sched_out.borrow_mut());
    let finished = FINISH.with(|f| f.borrow_mut().take());
    let output = SLOT.with(|s| s.borrow_mut().take());
    let custom = CUSTOM_OUT.with(|c| c.borrow_mut().take());
    let verdict = match failure {
        None => match output {
            Some(out) => Verdict::Completed(Box::new(out)),
            None if custom.is_some() => Verdict::CustomCompleted,
            None => Verdict::HarnessError("execution ended without output".into()),
        },
        Some(msg) => {
            if msg.starts_with("deadlock!") {
                Verdict::Deadlock(msg)
            } else if msg.starts_with("exceeded max_steps") {
                Verdict::StepBound
            } else {
                Verdict::HarnessError(msg)
            }
        }
    };
    let (steps, trace_hash, fault_counts, log) = finished.unwrap_or((steps_now, hash_now, faults_now, log_now));
    let _ = job.reply.send(SimResult { custom, verdict, sched, monitor, steps, trace_hash, fault_counts, log });
    job.reply.close();
}

struct PullScheduler {
    state: Rc<RefCell<EngineState>>,
}

impl shuttle_engine::scheduler::Scheduler for PullScheduler {
    fn new_execution(&mut self) -> Option<shuttle_engine::scheduler::Schedule> {
        let mut st = self.state.borrow_mut();
        if let Some(done) = st.current.take() {
            finalize(done, None);
        }
        let job = match st.pending.take() {
            Some(j) => j,
            None => match st.rx.recv() {
                Some(j) => j,
                None => {
                    st.closed = true;
                    return None;
                }
            },
        };
        if job.sched.n1 + job.sched.n2 != st.max_steps {
            // different step bound: end this runner, the engine loop builds a new one
            st.max_steps = job.sched.n1 + job.sched.n2;
            st.pending = Some(job);
            return None;
        }
        let sched_out = Rc::new(RefCell::new(SchedOut::default()));
        let mode = match job.replay.clone() {
            Some(trace) => Mode::Replay(trace),
            None => Mode::Random,
        };
        let mut inner = SimScheduler::new(job.sched.clone(), mode, sched_out.clone(), job.opts.record_trace);
        let schedule = shuttle_engine::scheduler::Scheduler::new_execution(&mut inner);
        // reset the per-run runtime state BEFORE the engine asks for its first decision
        rt::begin_run(job.opts.record_log, job.sched.buggify);
        SLOT.with(|s| *s.borrow_mut() = None);
        FINISH.with(|f| *f.borrow_mut() = None);
        BODY_INPUT.with(|b| {
            *b.borrow_mut() = Some((Arc::clone(&job.scenario), job.opts.clone(), job.sched.buggify, job.sched.seed))
        });
        CUSTOM_BODY.with(|c| *c.borrow_mut() = job.custom.clone());
        CUSTOM_OUT.with(|c| *c.borrow_mut() = None);
        st.current = Some(Current { job, sched_out, inner });
        schedule
    }

    fn next_task(
        &mut self,
        runnable: &[&shuttle_engine::scheduler::Task],
        current: Option<shuttle_engine::scheduler::TaskId>,
        is_yielding: bool,
    ) -> Option<shuttle_engine::scheduler::TaskId> {
        let mut st = self.state.borrow_mut();
        st.current.as_mut().expect("job in flight").inner.next_task(runnable, current, is_yielding)
    }

    fn next_u64(&mut self) -> u64 {
        let mut st = self.state.borrow_mut();
        st.current.as_mut().expect("job in flight").inner.next_u64()
    }
}

/// The main task of every simulated execution.
fn sim_body() {
    let (scenario, opts, buggify, seed) = BODY_INPUT.with(|b| b.borrow_mut().take()).expect("body input");
    ahash::random_state::verif_reset_seed_counter(seed as usize | 1);
    foldhash::verif_reset_seed_counter(seed | 1);
    let _ = buggify;
    if let Some(custom) = CUSTOM_BODY.with(|c| c.borrow_mut().take()) {
        // component simulation: the body is a harness-supplied closure over production types
        let out = custom();
        FINISH.with(|f| *f.borrow_mut() = Some((rt::steps(), rt::trace_hash(), rt::fault_counts(), rt::take_log())));
        rt::end_run();
        CUSTOM_OUT.with(|c| *c.borrow_mut() = Some(out));
        return;
    }
    monitor::install(opts.expected_first.clone());
    let db = Arc::new(SimDb::from_scenario(&scenario, true, false));
    let precompile_log = Arc::new(PrecompileLog::default());
    let pcs = precompiles::build(&scenario.precompiles, &precompile_log);
    let pcs_arc = (!pcs.is_empty()).then(|| Arc::new(pcs));
    let state = new_parallel_state(&scenario, Arc::clone(&db));
    let txs = Arc::new(scenario.txs.iter().map(make_tx).collect::<Vec<_>>());
    let scheduler = Scheduler::new_with_runtime_config(
        make_cfg(&scenario.evm),
        make_block(&scenario.block),
        txs,
        state,
        pcs_arc.clone(),
        grevm_config(&scenario),
    );
    let calls = run_callers(&scheduler, &scenario.callers);
    let (outcomes, mut state) = scheduler.take_result_and_state();
    let mut second = None;
    if let Some((block2, txs2)) = &scenario.second {
        // Block boundary as an integration would do it: merge the first block's transitions, then run
        // the next block on the same state (its cache now holds whatever the first block's
        // speculative readers left behind).
        {
            let _g = rt::no_switch();
            state.merge_transitions(revm_database::states::bundle_state::BundleRetention::Reverts);
        }
        monitor::next_block(opts.expected_second.clone());
        let txs = Arc::new(txs2.iter().map(make_tx).collect::<Vec<_>>());
        let scheduler2 = Scheduler::new_with_runtime_config(
            make_cfg(&scenario.evm),
            make_block(block2),
            txs,
            state,
            pcs_arc,
            grevm_config(&scenario),
        );
        let calls2 = run_callers(&scheduler2, &[vec![Entry::Execute]]);
        let (outcomes2, state2) = scheduler2.take_result_and_state();
        state = state2;
        second = Some((calls2, outcomes2));
    }
    FINISH.with(|f| *f.borrow_mut() = Some((rt::steps(), rt::trace_hash(), rt::fault_counts(), rt::take_log())));
    rt::end_run();
    SLOT.with(|s| {
        *s.borrow_mut() = Some(SimOutput { first: BlockOutput { calls, outcomes, state }, second, db, precompile_log })
    });
}

fn engine_thread_main(rx: Arc<Chan<Job>>, _guard: ()) {
    let state = Rc::new(RefCell::new(EngineState {
        rx,
        current: None,
        pending: None,
        max_steps: crate::checks::N1 + crate::checks::N2,
        closed: false,
    }));
    loop {
        let max_steps = state.borrow().max_steps;
        let runner = Runner::new(PullScheduler { state: Rc::clone(&state) }, engine_config(max_steps));
        let run = catch_unwind(AssertUnwindSafe(|| runner.run(sim_body)));
        if let Err(payload) = run {
            let msg = match classify_panic(payload.as_ref()) {
                PanicKind::Other(m) => m,
                other => format!("{other:?}"),
            };
            // the RefCell may still be borrowed if the panic came out of the scheduler itself
            match state.try_borrow_mut() {
                Ok(mut st) => {
                    if let Some(current) = st.current.take() {
                        finalize(current, Some(msg));
                    }
                }
                Err(_) => return,
            }
        }
        if state.borrow().closed {
            return;
        }
    }
}

/// Run one scenario under the simulator. Never panics: every failure is turned into a verdict.
pub fn run_sim(scenario: &Arc<Scenario>, sched: &SchedSpec, replay: Option<Trace>, opts: &RunOptions) -> SimResult {
    run_sim_inner(None, scenario, sched, replay, opts)
}

/// Run a harness-supplied closure (a component driver over production types) as the main task.
pub fn run_custom(body: CustomBody, sched: &SchedSpec, replay: Option<Trace>, record_trace: bool) -> SimResult {
    let opts = RunOptions { record_trace, record_log: std::env::var_os("VERIF_LOG").is_some(), expected_first: None, expected_second: None };
    run_sim_inner(Some(body), &Arc::new(crate::scenario::Scenario::empty()), sched, replay, &opts)
}

fn run_sim_inner(custom: Option<CustomBody>, scenario: &Arc<Scenario>, sched: &SchedSpec, replay: Option<Trace>, opts: &RunOptions) -> SimResult {
    crate::hook::ensure_installed();
    let reply: Arc<Chan<SimResult>> = Chan::new();
    let mut job = Some(Job { custom, scenario: Arc::clone(scenario), sched: sched.clone(), replay, opts: opts.clone(), reply: Arc::clone(&reply) });
    for _attempt in 0..2 {
        let sent = ENGINE.with(|e| {
            let mut e = e.borrow_mut();
            if e.is_none() {
                let chan: Arc<Chan<Job>> = Chan::new();
                let rx = Arc::clone(&chan);
                let reply_on_death = Arc::clone(&chan);
                std::thread::Builder::new()
                    .name("sim-engine".into())
                    .stack_size(4 << 20)
                    .spawn(move || {
                        engine_thread_main(rx, ());
                        // engine gone: refuse further jobs and fail the ones still queued
                        reply_on_death.close();
                        while let Some(j) = reply_on_death.recv() {
                            j.reply.close();
                        }
                    })
                    .expect("spawn engine thread");
                *e = Some(CloseOnDrop(chan));
            }
            match e.as_ref().unwrap().0.send(job.take().unwrap()) {
                Ok(()) => true,
                Err(j) => {
                    job = Some(j);
                    *e = None;
                    false
                }
            }
        });
        if sent {
            break;
        }
    }
    match reply.recv() {
        Some(r) => r,
        None => SimResult {
            custom: None,
            verdict: Verdict::HarnessError("engine thread died".into()),
            sched: SchedOut::default(),
            monitor: Monitor::default(),
            steps: 0,
            trace_hash: 0,
            fault_counts: [0; 16],
            log: None,
        },
    }
}

/// Execute a scenario's first block through the real public API OUTSIDE the simulator on one of the
/// sequential entry points (`execute()` with `force_sequential`, or `fallback_sequential()`): no thread
/// is spawned on these paths, so no schedule exists to control.
pub fn run_direct(scenario: &Scenario, use_fallback_entry: bool) -> (CallResult, Vec<TxExecutionOutcome>, ParallelState<Arc<SimDb>>, Arc<SimDb>) {
    assert!(!rt::in_sim());
    let db = Arc::new(SimDb::from_scenario(scenario, true, false));
    let precompile_log = Arc::new(PrecompileLog::default());
    let pcs = precompiles::build(&scenario.precompiles, &precompile_log);
    let pcs_arc = (!pcs.is_empty()).then(|| Arc::new(pcs));
    let state = new_parallel_state(scenario, Arc::clone(&db));
    let txs = Arc::new(scenario.txs.iter().map(make_tx).collect::<Vec<_>>());
    let mut config = grevm_config(scenario);
    if !use_fallback_entry {
        config.force_sequential = true;
    }
    let scheduler =
        Scheduler::new_with_runtime_config(make_cfg(&scenario.evm), make_block(&scenario.block), txs, state, pcs_arc, config);
    let entry = if use_fallback_entry { Entry::FallbackSequential } else { Entry::Execute };
    let call = do_call(&scheduler, 0, &entry);
    let (outcomes, state) = scheduler.take_result_and_state();
    (call, outcomes, state, db)
}
