//! Normalised view of an `EvmState` delta: exactly the fields `apply_account_state` consumes.
//! Journal-local artefacts (cold flags, journal transaction ids, untouched loaded accounts, the
//! LoadedAsNotExisting marker) are excluded because workers use private journals.

use revm_primitives::{Address, B256, U256};
use revm_state::EvmState;
use std::collections::BTreeMap;

#[derive(Clone, Debug, PartialEq, Eq)]
pub enum NormKind {
    SelfDestructed,
    Created,
    EmptyTouch,
    Changed,
}

#[derive(Clone, Debug, PartialEq, Eq)]
pub struct NormAccount {
    pub kind: NormKind,
    pub balance: U256,
    pub nonce: u64,
    pub code_hash: B256,
    /// Non-empty code bytes carried in the account info (if any).
    pub code: Option<Vec<u8>>,
    /// changed slots: key -> (original, present)
    pub slots: BTreeMap<U256, (U256, U256)>,
}

pub type NormDelta = BTreeMap<Address, NormAccount>;

pub fn normalise(state: &EvmState) -> NormDelta {
    let mut out = BTreeMap::new();
    for (address, account) in state.iter() {
        if !account.is_touched() {
            continue;
        }
        let kind = if account.is_selfdestructed() {
            NormKind::SelfDestructed
        } else if account.is_created() {
            NormKind::Created
        } else if account.is_empty() {
            NormKind::EmptyTouch
        } else {
            NormKind::Changed
        };
        let relevant = matches!(kind, NormKind::Created | NormKind::Changed);
        let slots = if relevant {
            account
                .storage
                .iter()
                .filter(|(_, slot)| slot.is_changed())
                .map(|(k, slot)| (*k, (slot.original_value, slot.present_value)))
                .collect()
        } else {
            BTreeMap::new()
        };
        let code = account.info.code.as_ref().and_then(|c| {
            let bytes = c.original_bytes();
            (!bytes.is_empty()).then(|| bytes.to_vec())
        });
        out.insert(
            *address,
            NormAccount {
                kind,
                balance: if relevant { account.info.balance } else { U256::ZERO },
                nonce: if relevant { account.info.nonce } else { 0 },
                code_hash: if relevant { account.info.code_hash } else { B256::ZERO },
                code: if relevant { code } else { None },
                slots,
            },
        );
    }
    out
}

/// Compare a committed delta with the reference delta. Returns a description of the first
/// difference. Code bytes are compared when both sides carry them, and always for created accounts
/// (AccountInfo equality in revm ignores the code field; the bundle comparison covers new contracts).
pub fn diff_delta(actual: &NormDelta, expected: &NormDelta) -> Option<String> {
    for (address, exp) in expected {
        let Some(act) = actual.get(address) else {
            return Some(format!("account {address} missing from committed delta (expected {exp:?})"));
        };
        if act.kind != exp.kind {
            return Some(format!("account {address}: kind {:?} != expected {:?}", act.kind, exp.kind));
        }
        if act.balance != exp.balance || act.nonce != exp.nonce || act.code_hash != exp.code_hash {
            return Some(format!(
                "account {address}: info (bal {}, nonce {}, code_hash {}) != expected (bal {}, nonce {}, code_hash {})",
                act.balance, act.nonce, act.code_hash, exp.balance, exp.nonce, exp.code_hash
            ));
        }
        if act.slots != exp.slots {
            return Some(format!("account {address}: changed slots {:?} != expected {:?}", act.slots, exp.slots));
        }
        let compare_code = exp.kind == NormKind::Created || (act.code.is_some() && exp.code.is_some());
        if compare_code && act.code != exp.code {
            return Some(format!("account {address}: code bytes differ"));
        }
    }
    for address in actual.keys() {
        if !expected.contains_key(address) {
            return Some(format!("account {address} touched in committed delta but not in reference ({:?})", actual[address]));
        }
    }
    None
}
