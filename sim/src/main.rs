mod batch;
mod checks;
mod compare;
mod components;
mod evmasm;
mod evmenv;
mod faultgen;
mod histcomp;
mod hook;
mod known;
mod minimise;
mod miri;
mod monitor;
mod norm;
mod oracle;
mod paths;
mod precompiles;
mod prng;
mod reference;
mod replayfile;
mod reservemodel;
mod run;
mod scenario;
mod selfcheck;
mod simdb;
mod simsched;
mod statecomp;
mod templates;
mod workload;

use checks::Tier;
use std::path::Path;

fn seed_from_env() -> u64 {
    std::env::var("VERIF_SEED").ok().and_then(|s| s.parse().ok()).unwrap_or(checks::DEFAULT_SEED)
}

fn usage() -> ! {
    eprintln!("usage: sim check <ID> <quick|thorough> | sim replay <file> | sim selfcheck determinism [runs] | sim case <ID> <tier> <idx> | sim gen <ID> <tier> <idx>");
    std::process::exit(2)
}

fn main() {
    let args: Vec<String> = std::env::args().collect();
    if args.len() < 2 {
        usage();
    }
    let code = match args[1].as_str() {
        "check" => {
            if args.len() < 4 {
                usage();
            }
            let tier = match std::env::var("VERIF_TIER").ok().as_deref().unwrap_or(args[3].as_str()) {
                "thorough" => Tier::Thorough,
                _ => Tier::Quick,
            };
            let tier = if args[3] == "thorough" { Tier::Thorough } else { tier };
            let seed = seed_from_env();
            println!("VERIF_SEED={seed} check={} tier={}", args[2], tier.name());
            let id = args[2].as_str();
            if checks::PIPELINE_CHECKS.contains(&id) {
                checks::run_pipeline_check(id, tier, seed)
            } else if components::COMPONENT_CHECKS.contains(&id) {
                components::run_component_check(id, tier, seed)
            } else {
                eprintln!("unknown check {id}");
                2
            }
        }
        "replay" => {
            if args.len() < 3 {
                usage();
            }
            checks::replay(Path::new(&args[2]))
        }
        "selfcheck" => {
            let runs = args.get(3).and_then(|s| s.parse().ok()).unwrap_or(200);
            selfcheck::determinism(seed_from_env(), runs, &args)
        }
        "rate" => {
            // sim rate <ID> <runs> [tier]: how often does the check fail per strategy (no early stop, no
            // minimisation) - a benchmark for tuning the search against a deliberately broken tree
            if args.len() < 4 {
                usage();
            }
            hook::warm_up();
            let check = args[2].clone();
            let runs: u64 = args[3].parse().unwrap();
            let tier = if args.get(4).map(|s| s.as_str()) == Some("thorough") { Tier::Thorough } else { Tier::Quick };
            let seed = seed_from_env();
            let tally = std::sync::Mutex::new(std::collections::BTreeMap::<(u8, String), (u64, u64)>::new());
            let first = std::sync::Mutex::new(Vec::<(u64, String)>::new());
            let case = |idx: u64| {
                let plan = checks::plan_pipeline_case(&check, tier, seed, idx);
                let r = checks::pipeline_case_record(&check, tier, seed, idx);
                let mut t = tally.lock().unwrap();
                let e = t.entry((plan.sched.strategy, plan.group.to_string())).or_insert((0, 0));
                e.0 += 1;
                if !r.findings.is_empty() {
                    e.1 += 1;
                    let mut f = first.lock().unwrap();
                    if f.len() < 2000 {
                        f.push((idx, r.findings[0].class.clone()));
                    }
                }
                r
            };
            let (_agg, wall) = batch::run_batch(runs, checks::jobs(), usize::MAX, None, &case);
            let t = tally.into_inner().unwrap();
            let mut by_strategy = std::collections::BTreeMap::<u8, (u64, u64)>::new();
            let mut by_group = std::collections::BTreeMap::<String, (u64, u64)>::new();
            for ((st, g), (n, h)) in &t {
                let e = by_strategy.entry(*st).or_insert((0, 0));
                e.0 += n;
                e.1 += h;
                let e = by_group.entry(g.clone()).or_insert((0, 0));
                e.0 += n;
                e.1 += h;
            }
            let total: u64 = by_strategy.values().map(|v| v.1).sum();
            println!("rate {check}: {runs} runs in {wall:.1}s, {total} failing cases");
            for (st, (n, h)) in &by_strategy {
                println!("  strategy {st}: {h}/{n}");
            }
            for (g, (n, h)) in &by_group {
                println!("  group {g}: {h}/{n}");
            }
            let mut f = first.into_inner().unwrap();
            f.sort();
            println!("  first failing cases: {:?}", f.iter().take(8).collect::<Vec<_>>());
            0
        }
        "statecase" => {
            // sim statecase <idx> [tier]: one case of the C10 state-readers component, three ways
            hook::warm_up();
            let idx: u64 = args[2].parse().unwrap();
            let tier = if args.get(3).map(|s| s.as_str()) == Some("thorough") { Tier::Thorough } else { Tier::Quick };
            if std::env::var_os("PIPE").is_some() {
                for round in 0..3 {
                    let plan = checks::plan_pipeline_case("C01", tier, seed_from_env(), idx);
                    let out = checks::evaluate_case("C01", &plan.scenario, &plan.sched, None, &plan.want);
                    println!("pipeline run {round}: hash={:016x} decisions={}", out.stats.trace_hash, out.stats.decisions);
                }
                return;
            }
            let p = statecomp::plan(seed_from_env(), idx, tier);
            for round in 0..2 {
                let out = statecomp::run_case(&p, None, true);
                println!("run {round}: hash={:016x} decisions={} findings={:?}", out.stats.trace_hash, out.stats.decisions, out.findings.iter().map(|f| f.class.clone()).collect::<Vec<_>>());
                if let Some(t) = out.trace {
                    let again = statecomp::run_case(&p, Some(t.clone()), false);
                    println!("  replay of its trace ({} decisions): hash={:016x} decisions={} findings={:?}", t.tasks.len(), again.stats.trace_hash, again.stats.decisions, again.findings.iter().map(|f| f.class.clone()).collect::<Vec<_>>());
                }
            }
            0
        }
        "case" | "gen" => {
            if args.len() < 5 {
                usage();
            }
            let tier = if args[3] == "thorough" { Tier::Thorough } else { Tier::Quick };
            let idx: u64 = args[4].parse().unwrap();
            let plan = checks::plan_pipeline_case(&args[2], tier, seed_from_env(), idx);
            if args[1] == "gen" {
                println!("{}", serde_json::to_string_pretty(&plan.scenario.to_json()).unwrap());
                println!("{}", plan.sched.to_json());
                0
            } else {
                hook::warm_up();
                let out = checks::evaluate_case(&args[2], &plan.scenario, &plan.sched, None, &plan.want);
                println!("group={} summary={}", plan.group, out.summary);
                println!("stats: decisions={} steps={} probes={:?}", out.stats.decisions, out.stats.steps, out.stats.probes);
                for f in &out.findings {
                    println!("FINDING property={} class={} detail={}", f.property, f.class, f.detail);
                }
                0
            }
        }
        _ => usage(),
    };
    std::process::exit(code);
}
