mod compare;
mod evmenv;
mod hook;
mod monitor;
mod norm;
mod precompiles;
mod prng;
mod reference;
mod run;
mod scenario;
mod simdb;
mod simsched;

use grevm::ParallelTakeBundle;
use revm_database::states::bundle_state::BundleRetention;
use revm_primitives::{Address, B256, Bytes, U256, hardfork::SpecId};
use scenario::*;
use std::sync::Arc;

fn addr(n: u64) -> Address {
    Address::from_word(B256::from(U256::from(n)))
}

fn smoke_scenario() -> Scenario {
    let eoas: Vec<Address> = (1..=4).map(|i| addr(0x1000 + i)).collect();
    let pre_state = eoas
        .iter()
        .map(|a| AccountSpec { address: *a, balance: U256::from(10u64).pow(U256::from(18)), nonce: 0, code: Bytes::new(), storage: vec![] })
        .collect();
    let mut txs = Vec::new();
    for i in 0..5usize {
        let from = eoas[i % 2];
        txs.push(TxSpec {
            caller: from,
            to: Some(eoas[(i + 1) % 4]),
            value: U256::from(1000 + i as u64),
            data: Bytes::new(),
            gas_limit: 50_000,
            gas_price: 10,
            priority_fee: None,
            nonce: (i / 2) as u64,
            chain_id: Some(1),
            tx_type: 0,
            auths: vec![],
            access_list: vec![],
            label: "transfer".into(),
        });
    }
    Scenario {
        evm: EvmSpec { spec: SpecId::SHANGHAI, chain_id: 1, disable_nonce_check: false },
        block: BlockSpec {
            number: 100,
            beneficiary: addr(0xc0ffee),
            timestamp: 1_700_000_000,
            gas_limit: 30_000_000,
            basefee: 7,
            prevrandao: B256::ZERO,
            difficulty: U256::ZERO,
        },
        pre_state,
        block_hashes: vec![],
        txs,
        grevm: GrevmSpec { concurrency: 3, min_parallel_txs: 0, force_sequential: false, forbid_delegated_create: false, reserve_delegated_balance: false },
        warm_cache: false,
        bundle_update: true,
        faults: vec![],
        precompiles: vec![],
        callers: vec![vec![Entry::Execute]],
        second: None,
        profile: "smoke".into(),
    }
}

fn main() {
    let scenario = Arc::new(smoke_scenario());
    // reference
    let db = simdb::SimDb::from_scenario(&scenario, true, true);
    let mut state = reference::new_ref_state(&db, true);
    let rb = reference::run_reference_block(&mut state, &scenario.evm, &scenario.block, &scenario.txs, &[], true);
    let ref_bundle = reference::take_ref_bundle(&mut state, BundleRetention::Reverts);
    println!("reference: {} steps, error {:?}", rb.steps.len(), rb.error);
    let expected: Vec<_> = rb.steps.iter().map(|s| s.outcome.clone()).collect();
    let steps = Arc::new(rb.steps);

    let n: u64 = std::env::args().nth(1).and_then(|s| s.parse().ok()).unwrap_or(10);
    let start = std::time::Instant::now();
    let mut hashes = std::collections::HashSet::new();
    for seed in 0..n {
        let sched = SchedSpec { seed, strategy: (seed % 3) as u8, p1: 700, p2: 2000, p3: 0, strict: true, spurious_per_1024: 0, buggify: 0, n1: 200_000, n2: 200_000 };
        let opts = run::RunOptions { record_trace: false, record_log: false, expected_first: Some(steps.clone()), expected_second: None };
        let r = run::run_sim(&scenario, &sched, None, &opts);
        hashes.insert(r.trace_hash);
        match r.verdict {
            run::Verdict::Completed(out) => {
                let mut out = *out;
                let bundle = out.first.state.parallel_take_bundle(BundleRetention::Reverts);
                let d1 = compare::diff_outcomes(&out.first.outcomes, &expected);
                let d2 = compare::diff_bundles(&bundle, &ref_bundle);
                if seed < 5 || d1.is_some() || d2.is_some() || !r.monitor.violations.is_empty() {
                    println!(
                        "seed {seed}: calls {:?} decisions {} steps {} reexec {} valconf {} viol {:?} d1 {:?} d2 {:?}",
                        out.first.calls.iter().map(|c| format!("{:?}", c.outcome)).collect::<Vec<_>>(),
                        r.sched.decisions, r.steps, r.monitor.probes.reexecutions, r.monitor.probes.validation_conflicts,
                        r.monitor.violations, d1, d2
                    );
                }
            }
            run::Verdict::Deadlock(m) => println!("seed {seed}: DEADLOCK {m}"),
            run::Verdict::StepBound => println!("seed {seed}: STEP BOUND"),
            run::Verdict::HarnessError(m) => println!("seed {seed}: HARNESS ERROR {m}"),
        }
    }
    println!("{} runs in {:?}, {} distinct trace hashes", n, start.elapsed(), hashes.len());
}
