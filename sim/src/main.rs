mod batch;
mod checks;
mod compare;
mod components;
mod evmasm;
mod evmenv;
mod faultgen;
mod histcomp;
mod hook;
mod known;
mod minimise;
mod miri;
mod monitor;
mod norm;
mod oracle;
mod paths;
mod precompiles;
mod prng;
mod reference;
mod replayfile;
mod reservemodel;
mod run;
mod scenario;
mod selfcheck;
mod simdb;
mod simsched;
mod statecomp;
mod templates;
mod workload;

use checks::Tier;
use std::path::Path;

fn seed_from_env() -> u64 {
    std::env::var("VERIF_SEED").ok().and_then(|s| s.parse().ok()).unwrap_or(checks::DEFAULT_SEED)
}

fn usage() -> ! {
    eprintln!("usage: sim check <ID> <quick|thorough> | sim replay <file> | sim selfcheck determinism [runs] | sim case <ID> <tier> <idx> | sim gen <ID> <tier> <idx>");
    std::process::exit(2)
}

fn main() {
    let args: Vec<String> = std::env::args().collect();
    if args.len() < 2 {
        usage();
    }
    let code = match args[1].as_str() {
        "check" => {
            if args.len() < 4 {
                usage();
            }
            let tier = match std::env::var("VERIF_TIER").ok().as_deref().unwrap_or(args[3].as_str()) {
                "thorough" => Tier::Thorough,
                _ => Tier::Quick,
            };
            let tier = if args[3] == "thorough" { Tier::Thorough } else { tier };
            let seed = seed_from_env();
            println!("VERIF_SEED={seed} check={} tier={}", args[2], tier.name());
            let id = args[2].as_str();
            if checks::PIPELINE_CHECKS.contains(&id) {
                checks::run_pipeline_check(id, tier, seed)
            } else if components::COMPONENT_CHECKS.contains(&id) {
                components::run_component_check(id, tier, seed)
            } else {
                eprintln!("unknown check {id}");
                2
            }
        }
        "replay" => {
            if args.len() < 3 {
                usage();
            }
            checks::replay(Path::new(&args[2]))
        }
        "selfcheck" => {
            let runs = args.get(3).and_then(|s| s.parse().ok()).unwrap_or(200);
            selfcheck::determinism(seed_from_env(), runs, &args)
        }
        "case" | "gen" => {
            if args.len() < 5 {
                usage();
            }
            let tier = if args[3] == "thorough" { Tier::Thorough } else { Tier::Quick };
            let idx: u64 = args[4].parse().unwrap();
            let plan = checks::plan_pipeline_case(&args[2], tier, seed_from_env(), idx);
            if args[1] == "gen" {
                println!("{}", serde_json::to_string_pretty(&plan.scenario.to_json()).unwrap());
                println!("{}", plan.sched.to_json());
                0
            } else {
                hook::ensure_installed();
                let out = checks::evaluate_case(&args[2], &plan.scenario, &plan.sched, None, &plan.want);
                println!("group={} summary={}", plan.group, out.summary);
                println!("stats: decisions={} steps={} probes={:?}", out.stats.decisions, out.stats.steps, out.stats.probes);
                for f in &out.findings {
                    println!("FINDING property={} class={} detail={}", f.property, f.class, f.detail);
                }
                0
            }
        }
        _ => usage(),
    };
    std::process::exit(code);
}
