//! Tiny EVM assembler + statement DSL -> bytecode (no Solidity toolchain in the sandbox).
//!
//! Every value a program reads is folded into an accumulator (`acc = acc * 31 + v`, wrapping) that is
//! returned as the 32-byte output, so a stale read shows up in the `ExecutionResult`, not only in
//! state. Expressions push exactly one word; statements are stack-neutral.
//! Memory: 0x00 acc | 0x20,0x40 call arguments | 0x60 call return word | 0x80.. scratch (init code).

use revm_primitives::{Address, U256, hardfork::SpecId};

#[derive(Clone, Debug, PartialEq)]
pub enum Expr {
    Imm(U256),
    /// 32-byte word `i` of calldata
    CallData(usize),
    Acc,
    Sload(Box<Expr>),
    Add(Box<Expr>, Box<Expr>),
    /// bitwise AND (to keep data-dependent keys inside the hot range)
    And(Box<Expr>, Box<Expr>),
    IsZero(Box<Expr>),
    Balance(Box<Expr>),
    SelfBalance,
    Coinbase,
    Caller,
    Origin,
    This,
    CallValue,
    ExtCodeSize(Box<Expr>),
    ExtCodeHash(Box<Expr>),
    BlockHash(Box<Expr>),
    Number,
    Timestamp,
}

#[derive(Clone, Copy, Debug, PartialEq, Eq)]
pub enum CallKind {
    Call,
    Static,
    Delegate,
    /// CALLCODE: the callee's code runs in the caller's state context, value stays with the caller
    CallCode,
}

#[derive(Clone, Debug, PartialEq)]
pub enum Stmt {
    /// fold the value into the accumulator
    Mix(Expr),
    Sstore(Expr, Expr),
    /// call `to` with calldata = [arg0, arg1] (two words), fold success flag and first return word
    Call { kind: CallKind, to: Expr, value: Expr, arg0: Expr, arg1: Expr, gas: u64 },
    /// call with calldata = raw bytes (<= 96 bytes; used for precompile command encodings)
    CallRaw { kind: CallKind, to: Expr, value: Expr, data: Vec<u8>, gas: u64 },
    Create { init: Vec<u8>, value: Expr },
    Create2 { init: Vec<u8>, value: Expr, salt: Expr },
    SelfDestruct(Expr),
    /// revert (returning acc) if the expression is non-zero
    RevertIf(Expr),
    /// return acc (successfully) if the expression is non-zero
    ReturnIf(Expr),
    Revert,
    Log(Expr),
    /// copy the first 32 bytes of the code at the address and fold them
    ExtCodeCopyMix(Expr),
    /// stop without returning data
    Stop,
    /// execute the body only if the condition is non-zero
    If(Expr, Vec<Stmt>),
}

pub fn imm(v: u64) -> Expr {
    Expr::Imm(U256::from(v))
}

pub fn addr_expr(a: Address) -> Expr {
    Expr::Imm(U256::from_be_slice(a.as_slice()))
}

pub fn sload(k: Expr) -> Expr {
    Expr::Sload(Box::new(k))
}

pub fn add(a: Expr, b: Expr) -> Expr {
    Expr::Add(Box::new(a), Box::new(b))
}

#[derive(Default)]
pub struct Asm {
    pub code: Vec<u8>,
}

impl Asm {
    pub fn op(&mut self, b: u8) -> &mut Self {
        self.code.push(b);
        self
    }

    pub fn push(&mut self, v: U256) -> &mut Self {
        let bytes = v.to_be_bytes::<32>();
        let first = bytes.iter().position(|b| *b != 0).unwrap_or(31);
        let n = 32 - first;
        self.code.push(0x5f + n as u8); // PUSH1..PUSH32 (never PUSH0: valid on every fork)
        self.code.extend_from_slice(&bytes[first..]);
        self
    }

    pub fn push_u64(&mut self, v: u64) -> &mut Self {
        self.push(U256::from(v))
    }

    fn push2_placeholder(&mut self) -> usize {
        self.code.push(0x61);
        self.code.push(0);
        self.code.push(0);
        self.code.len() - 2
    }

    fn patch2(&mut self, at: usize, value: usize) {
        self.code[at] = (value >> 8) as u8;
        self.code[at + 1] = value as u8;
    }

    pub fn expr(&mut self, e: &Expr) {
        match e {
            Expr::Imm(v) => {
                self.push(*v);
            }
            Expr::CallData(i) => {
                self.push_u64((*i as u64) * 32).op(0x35);
            }
            Expr::Acc => {
                self.push_u64(0).op(0x51);
            }
            Expr::Sload(k) => {
                self.expr(k);
                self.op(0x54);
            }
            Expr::Add(a, b) => {
                self.expr(a);
                self.expr(b);
                self.op(0x01);
            }
            Expr::And(a, b) => {
                self.expr(a);
                self.expr(b);
                self.op(0x16);
            }
            Expr::IsZero(a) => {
                self.expr(a);
                self.op(0x15);
            }
            Expr::Balance(a) => {
                self.expr(a);
                self.op(0x31);
            }
            Expr::SelfBalance => {
                self.op(0x47);
            }
            Expr::Coinbase => {
                self.op(0x41);
            }
            Expr::Caller => {
                self.op(0x33);
            }
            Expr::Origin => {
                self.op(0x32);
            }
            Expr::This => {
                self.op(0x30);
            }
            Expr::CallValue => {
                self.op(0x34);
            }
            Expr::ExtCodeSize(a) => {
                self.expr(a);
                self.op(0x3b);
            }
            Expr::ExtCodeHash(a) => {
                self.expr(a);
                self.op(0x3f);
            }
            Expr::BlockHash(n) => {
                self.expr(n);
                self.op(0x40);
            }
            Expr::Number => {
                self.op(0x43);
            }
            Expr::Timestamp => {
                self.op(0x42);
            }
        }
    }

    /// stack: [v] -> []   acc = acc * 31 + v
    fn mix_top(&mut self) {
        self.push_u64(0).op(0x51); // acc
        self.push_u64(31).op(0x02); // acc*31
        self.op(0x01); // + v
        self.push_u64(0).op(0x52); // mstore(0, ..)
    }

    fn store_bytes(&mut self, offset: u64, data: &[u8]) {
        for (i, chunk) in data.chunks(32).enumerate() {
            let mut word = [0u8; 32];
            word[..chunk.len()].copy_from_slice(chunk);
            self.push(U256::from_be_bytes(word));
            self.push_u64(offset + 32 * i as u64).op(0x52);
        }
    }

    fn emit_call(&mut self, kind: CallKind, to: &Expr, value: &Expr, in_size: u64, gas: u64) {
        // clear return word
        self.push_u64(0).push_u64(0x60).op(0x52);
        // args pushed in reverse: outSize outOffset inSize inOffset [value] to gas
        self.push_u64(0x20).push_u64(0x60).push_u64(in_size).push_u64(0x20);
        match kind {
            CallKind::Call => {
                self.expr(value);
                self.expr(to);
                self.push_u64(gas).op(0xf1);
            }
            CallKind::CallCode => {
                self.expr(value);
                self.expr(to);
                self.push_u64(gas).op(0xf2);
            }
            CallKind::Static => {
                self.expr(to);
                self.push_u64(gas).op(0xfa);
            }
            CallKind::Delegate => {
                self.expr(to);
                self.push_u64(gas).op(0xf4);
            }
        }
        self.mix_top(); // success flag
        self.push_u64(0x60).op(0x51);
        self.mix_top(); // first return word
    }

    pub fn stmt(&mut self, s: &Stmt) {
        match s {
            Stmt::Mix(e) => {
                self.expr(e);
                self.mix_top();
            }
            Stmt::Sstore(k, v) => {
                self.expr(v);
                self.expr(k);
                self.op(0x55);
            }
            Stmt::Call { kind, to, value, arg0, arg1, gas } => {
                self.expr(arg0);
                self.push_u64(0x20).op(0x52);
                self.expr(arg1);
                self.push_u64(0x40).op(0x52);
                self.emit_call(*kind, to, value, 0x40, *gas);
            }
            Stmt::CallRaw { kind, to, value, data, gas } => {
                self.store_bytes(0x20, data);
                self.emit_call(*kind, to, value, data.len() as u64, *gas);
            }
            Stmt::Create { init, value } => {
                self.store_bytes(0x80, init);
                self.push_u64(init.len() as u64).push_u64(0x80);
                self.expr(value);
                self.op(0xf0);
                self.mix_top();
            }
            Stmt::Create2 { init, value, salt } => {
                self.store_bytes(0x80, init);
                self.expr(salt);
                self.push_u64(init.len() as u64).push_u64(0x80);
                self.expr(value);
                self.op(0xf5);
                self.mix_top();
            }
            Stmt::SelfDestruct(to) => {
                self.expr(to);
                self.op(0xff);
            }
            Stmt::RevertIf(cond) => {
                self.expr(cond);
                self.op(0x15); // iszero -> skip revert
                let at = self.push2_placeholder();
                self.op(0x57);
                self.push_u64(0x20).push_u64(0).op(0xfd);
                let dest = self.code.len();
                self.op(0x5b);
                self.patch2(at, dest);
            }
            Stmt::ReturnIf(cond) => {
                self.expr(cond);
                self.op(0x15); // iszero -> skip return
                let at = self.push2_placeholder();
                self.op(0x57);
                self.push_u64(0x20).push_u64(0).op(0xf3);
                let dest = self.code.len();
                self.op(0x5b);
                self.patch2(at, dest);
            }
            Stmt::Revert => {
                self.push_u64(0x20).push_u64(0).op(0xfd);
            }
            Stmt::Log(topic) => {
                self.expr(topic);
                self.push_u64(0x20).push_u64(0).op(0xa1);
            }
            Stmt::ExtCodeCopyMix(a) => {
                self.push_u64(0).push_u64(0x60).op(0x52);
                // extcodecopy(addr, destOffset=0x60, offset=0, size=0x20)
                self.push_u64(0x20).push_u64(0).push_u64(0x60);
                self.expr(a);
                self.op(0x3c);
                self.push_u64(0x60).op(0x51);
                self.mix_top();
            }
            Stmt::Stop => {
                self.op(0x00);
            }
            Stmt::If(cond, body) => {
                self.expr(cond);
                self.op(0x15); // iszero -> skip the body
                let at = self.push2_placeholder();
                self.op(0x57);
                for st in body {
                    self.stmt(st);
                }
                let dest = self.code.len();
                self.op(0x5b);
                self.patch2(at, dest);
            }
        }
    }
}

/// Runtime bytecode: statements, then `return(0, 32)` (the accumulator).
pub fn compile(program: &[Stmt]) -> Vec<u8> {
    let mut asm = Asm::default();
    for s in program {
        asm.stmt(s);
    }
    asm.push_u64(0x20).push_u64(0).op(0xf3);
    assert!(asm.code.len() < 0x6000, "program too large");
    asm.code
}

/// Init code: run `ctor` statements, then deploy `runtime`.
pub fn compile_init(ctor: &[Stmt], runtime: &[u8]) -> Vec<u8> {
    let mut asm = Asm::default();
    for s in ctor {
        asm.stmt(s);
    }
    // codecopy(destOffset=0, offset=<runtime start>, size=len); return(0, len)
    asm.push_u64(runtime.len() as u64);
    let at = asm.push2_placeholder();
    asm.push_u64(0).op(0x39);
    asm.push_u64(runtime.len() as u64).push_u64(0).op(0xf3);
    let start = asm.code.len();
    asm.patch2(at, start);
    asm.code.extend_from_slice(runtime);
    asm.code
}

/// EIP-7702 delegation designator code.
pub fn delegation_code(target: Address) -> Vec<u8> {
    let mut v = vec![0xef, 0x01, 0x00];
    v.extend_from_slice(target.as_slice());
    v
}

fn expr_min_spec(e: &Expr) -> SpecId {
    match e {
        Expr::SelfBalance => SpecId::ISTANBUL,
        Expr::ExtCodeHash(a) => SpecId::PETERSBURG.max(expr_min_spec(a)),
        Expr::Sload(a) | Expr::Balance(a) | Expr::ExtCodeSize(a) | Expr::BlockHash(a) | Expr::IsZero(a) => expr_min_spec(a),
        Expr::Add(a, b) | Expr::And(a, b) => expr_min_spec(a).max(expr_min_spec(b)),
        _ => SpecId::FRONTIER,
    }
}

/// The earliest fork on which every opcode of the statement exists (generator filter; running a
/// statement on an older fork is still legal — it halts identically on both sides).
pub fn stmt_min_spec(s: &Stmt) -> SpecId {
    match s {
        Stmt::Mix(e) | Stmt::Log(e) | Stmt::SelfDestruct(e) | Stmt::ExtCodeCopyMix(e) => expr_min_spec(e),
        Stmt::Sstore(a, b) => expr_min_spec(a).max(expr_min_spec(b)),
        Stmt::Call { kind, to, value, arg0, arg1, .. } => {
            let k = match kind {
                CallKind::Call | CallKind::CallCode => SpecId::FRONTIER,
                CallKind::Delegate => SpecId::HOMESTEAD,
                CallKind::Static => SpecId::BYZANTIUM,
            };
            k.max(expr_min_spec(to)).max(expr_min_spec(value)).max(expr_min_spec(arg0)).max(expr_min_spec(arg1))
        }
        Stmt::CallRaw { kind, to, value, .. } => {
            let k = match kind {
                CallKind::Call | CallKind::CallCode => SpecId::FRONTIER,
                CallKind::Delegate => SpecId::HOMESTEAD,
                CallKind::Static => SpecId::BYZANTIUM,
            };
            k.max(expr_min_spec(to)).max(expr_min_spec(value))
        }
        Stmt::Create { value, .. } => expr_min_spec(value),
        Stmt::Create2 { value, salt, .. } => SpecId::PETERSBURG.max(expr_min_spec(value)).max(expr_min_spec(salt)),
        Stmt::If(e, body) => body.iter().map(stmt_min_spec).fold(expr_min_spec(e), |a, b| a.max(b)),
        Stmt::RevertIf(e) => SpecId::BYZANTIUM.max(expr_min_spec(e)),
        Stmt::ReturnIf(e) => expr_min_spec(e),
        Stmt::Revert => SpecId::BYZANTIUM,
        Stmt::Stop => SpecId::FRONTIER,
    }
}
