//! Component simulations (production cursor / frontier / TxDependency / WaitSlot / BeneficiaryHistory
//! types driven through the in-crate drivers).

use crate::replayfile::ReplayFile;
use std::path::Path;

pub fn replay(_file: &ReplayFile, _path: &Path) -> i32 {
    println!("component replay not implemented yet");
    2
}
