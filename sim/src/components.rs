//! Component simulations: the production cursor / frontier / TxDependency / WaitSlot types driven by
//! the in-crate drivers (`grevm::verif::drivers::sched`) on simulator tasks. Same scheduler, strategies,
//! trace recording, replay and minimisation as the pipeline checks.

use crate::batch::{self, CaseRecord, EvidenceMeta};
use crate::checks::{self, SchedMode, Tier};
use crate::known;
use crate::oracle::{CaseStats, Finding};
use crate::prng::{Prng, derive};
use crate::replayfile::ReplayFile;
use crate::run::{self, Verdict};
use crate::scenario::{Scenario, SchedSpec};
use crate::simsched::Trace;
use grevm::verif::drivers::sched::{self, CursorScenario, DepScenario, DriverReport, FrontierScenario, Outcome, ReplaceScenario, WaitScenario};
use grevm::verif::drivers::{HistEffect, HistOp, HistScenario};
use revm_primitives::U256;
use serde_json::{Value, json};
use std::path::Path;
use std::sync::Arc;
use std::time::{Duration, Instant};

pub const COMPONENT_CHECKS: &[&str] = &["C15", "C16", "C17"];

#[derive(Clone, Debug)]
pub enum Component {
    Cursor(CursorScenario),
    Frontier(FrontierScenario),
    Dependency(DepScenario),
    Replace(ReplaceScenario),
    Wait(WaitScenario),
    History(HistScenario),
}

impl Component {
    pub fn group(&self) -> &'static str {
        match self {
            Component::Cursor(_) => "cursor-claim-rewind",
            Component::Frontier(_) => "execution-frontier",
            Component::Dependency(_) => "tx-dependency",
            Component::Replace(_) => "tx-dependency-api-replace-blocker",
            Component::Wait(_) => "wait-slot",
            Component::History(_) => "beneficiary-history",
        }
    }

    pub fn to_json(&self) -> Value {
        match self {
            Component::Cursor(c) => json!({"kind": "cursor", "n": c.n, "limit": c.limit, "claimers": c.claimers, "rewinders": c.rewinders}),
            Component::Frontier(f) => json!({"kind": "frontier", "n": f.n, "publishers": f.publishers, "readers": f.readers, "reads_per_reader": f.reads_per_reader}),
            Component::Dependency(d) => json!({"kind": "dependency", "n": d.n, "workers": d.workers,
                "scripts": d.scripts.iter().map(|s| s.iter().map(|o| match o {
                    Outcome::Success => json!("success"),
                    Outcome::Error => json!("error"),
                    Outcome::Conflict(x) => json!({"conflict": x}),
                }).collect::<Vec<_>>()).collect::<Vec<_>>()}),
            Component::Replace(r) => json!({"kind": "replace", "n": r.n, "tx": r.tx, "old_blocker": r.old_blocker, "new_blocker": r.new_blocker,
                "claimers": r.claimers, "pop_next": r.pop_next, "race_second_add": r.race_second_add}),
            Component::Wait(w) => json!({"kind": "wait", "notifiers": w.notifiers, "publishes_per_notifier": w.publishes_per_notifier,
                "register_delay": w.register_delay, "targets": w.targets}),
            Component::History(h) => {
                let acct = |a: &Option<(U256, u64)>| match a {
                    Some((b, n)) => json!({"balance": format!("{b:#x}"), "nonce": n}),
                    None => Value::Null,
                };
                json!({"kind": "history", "n": h.n, "anchor": acct(&h.anchor),
                    "tasks": h.tasks.iter().map(|t| t.iter().map(|o| match o {
                        HistOp::Yield => json!("yield"),
                        HistOp::Resolve { t } => json!({"resolve": t}),
                        HistOp::Revalidate { k } => json!({"revalidate": k}),
                        HistOp::Invalidate { tx, inc } => json!({"invalidate": [tx, inc]}),
                        HistOp::Record { tx, inc, effect } => json!({"record": [tx, inc], "effect": match effect {
                            HistEffect::Estimate => json!("estimate"),
                            HistEffect::Unchanged => json!("unchanged"),
                            HistEffect::Reward(a) => json!({"reward": format!("{a:#x}")}),
                            HistEffect::Snapshot(s) => json!({"snapshot": acct(s)}),
                        }}),
                    }).collect::<Vec<_>>()).collect::<Vec<_>>()})
            }
        }
    }

    pub fn from_json(v: &Value) -> Self {
        let us = |x: &Value| x.as_u64().unwrap() as usize;
        let list = |x: &Value| x.as_array().unwrap().iter().map(|y| y.as_u64().unwrap() as usize).collect::<Vec<_>>();
        let u256 = |x: &Value| U256::from_str_radix(x.as_str().unwrap().trim_start_matches("0x"), 16).unwrap();
        let acct = |x: &Value| if x.is_null() { None } else { Some((u256(&x["balance"]), x["nonce"].as_u64().unwrap())) };
        match v["kind"].as_str().unwrap() {
            "history" => Component::History(HistScenario {
                n: us(&v["n"]),
                anchor: acct(&v["anchor"]),
                tasks: v["tasks"].as_array().unwrap().iter().map(|t| t.as_array().unwrap().iter().map(|o| {
                    if o.as_str() == Some("yield") {
                        HistOp::Yield
                    } else if !o["resolve"].is_null() {
                        HistOp::Resolve { t: us(&o["resolve"]) }
                    } else if !o["revalidate"].is_null() {
                        HistOp::Revalidate { k: us(&o["revalidate"]) }
                    } else if !o["invalidate"].is_null() {
                        HistOp::Invalidate { tx: us(&o["invalidate"][0]), inc: us(&o["invalidate"][1]) }
                    } else {
                        let e = &o["effect"];
                        let effect = if e.as_str() == Some("estimate") {
                            HistEffect::Estimate
                        } else if e.as_str() == Some("unchanged") {
                            HistEffect::Unchanged
                        } else if !e["reward"].is_null() {
                            HistEffect::Reward(u256(&e["reward"]))
                        } else {
                            HistEffect::Snapshot(acct(&e["snapshot"]))
                        };
                        HistOp::Record { tx: us(&o["record"][0]), inc: us(&o["record"][1]), effect }
                    }
                }).collect()).collect(),
            }),
            "cursor" => Component::Cursor(CursorScenario {
                n: us(&v["n"]),
                limit: us(&v["limit"]),
                claimers: us(&v["claimers"]),
                rewinders: v["rewinders"].as_array().unwrap().iter().map(list).collect(),
            }),
            "frontier" => Component::Frontier(FrontierScenario {
                n: us(&v["n"]),
                publishers: v["publishers"].as_array().unwrap().iter().map(list).collect(),
                readers: us(&v["readers"]),
                reads_per_reader: us(&v["reads_per_reader"]),
            }),
            "dependency" => Component::Dependency(DepScenario {
                n: us(&v["n"]),
                workers: us(&v["workers"]),
                scripts: v["scripts"]
                    .as_array()
                    .unwrap()
                    .iter()
                    .map(|s| {
                        s.as_array()
                            .unwrap()
                            .iter()
                            .map(|o| match o.as_str() {
                                Some("success") => Outcome::Success,
                                Some("error") => Outcome::Error,
                                _ => Outcome::Conflict(us(&o["conflict"])),
                            })
                            .collect()
                    })
                    .collect(),
            }),
            "replace" => Component::Replace(ReplaceScenario {
                n: us(&v["n"]),
                tx: us(&v["tx"]),
                old_blocker: us(&v["old_blocker"]),
                new_blocker: us(&v["new_blocker"]),
                claimers: us(&v["claimers"]),
                pop_next: v["pop_next"].as_bool().unwrap(),
                race_second_add: v["race_second_add"].as_bool().unwrap(),
            }),
            _ => Component::Wait(WaitScenario {
                notifiers: us(&v["notifiers"]),
                publishes_per_notifier: us(&v["publishes_per_notifier"]),
                register_delay: us(&v["register_delay"]),
                targets: list(&v["targets"]),
            }),
        }
    }
}

pub fn plan(check: &str, seed: u64, idx: u64, tier: Tier) -> (Component, SchedSpec) {
    let mut rng = Prng::new(derive(seed, 0xc0a9_0000 ^ idx.wrapping_mul(0x9E37)));
    let big = tier == Tier::Thorough;
    let comp = match check {
        "C07" => Component::History(plan_history(&mut rng, big)),
        "C15" => {
            if rng.chance(3, 5) {
                let n = rng.range(2, if big { 8 } else { 6 }) as usize;
                let limit = rng.range(1, n as u64) as usize;
                let rewinders = (0..rng.range(1, 2)).map(|_| (0..rng.range(1, 3)).map(|_| rng.below(n as u64 + 1) as usize).collect()).collect();
                Component::Cursor(CursorScenario { n, limit, claimers: rng.range(1, 3) as usize, rewinders })
            } else {
                let n = rng.range(2, if big { 8 } else { 6 }) as usize;
                let mut all: Vec<usize> = (0..n).collect();
                rng.shuffle(&mut all);
                // some indices may stay unpublished; some are published twice
                let keep = rng.range(1, n as u64) as usize;
                all.truncate(keep);
                if rng.chance(1, 3) && !all.is_empty() {
                    let dup = all[rng.below(all.len() as u64) as usize];
                    all.push(dup);
                }
                let k = rng.range(1, 3) as usize;
                let mut publishers: Vec<Vec<usize>> = vec![Vec::new(); k];
                for (i, x) in all.into_iter().enumerate() {
                    publishers[i % k].push(x);
                }
                Component::Frontier(FrontierScenario { n, publishers, readers: rng.range(1, 2) as usize, reads_per_reader: rng.range(1, 4) as usize })
            }
        }
        "C16" if rng.chance(1, 4) => {
            let n = rng.range(3, 4) as usize;
            let tx = rng.range(2, n as u64 - 1) as usize;
            let old_blocker = rng.below(tx as u64) as usize;
            let mut new_blocker = rng.below(tx as u64) as usize;
            if new_blocker == old_blocker {
                new_blocker = (old_blocker + 1) % tx;
            }
            Component::Replace(ReplaceScenario { n, tx, old_blocker, new_blocker, claimers: rng.range(1, 2) as usize, pop_next: rng.chance(1, 2), race_second_add: rng.chance(1, 2) })
        }
        "C16" => {
            let n = rng.range(2, if big { 5 } else { 4 }) as usize;
            let scripts = (0..n)
                .map(|t| {
                    let mut s = Vec::new();
                    for _ in 0..rng.below(3) {
                        s.push(match rng.below(3) {
                            0 if t > 0 => Outcome::Conflict(rng.below(t as u64) as usize),
                            1 => Outcome::Error,
                            _ if t > 0 => Outcome::Conflict(t - 1),
                            _ => Outcome::Error,
                        });
                    }
                    s.push(Outcome::Success);
                    s
                })
                .collect();
            Component::Dependency(DepScenario { n, workers: rng.range(1, 3) as usize, scripts })
        }
        _ => {
            let notifiers = rng.range(1, 2) as usize;
            let per = rng.range(1, 3) as usize;
            let total = notifiers * per;
            let mut targets: Vec<usize> = (0..rng.range(1, 3)).map(|_| rng.range(1, total as u64) as usize).collect();
            targets.sort_unstable();
            targets.push(total);
            Component::Wait(WaitScenario { notifiers, publishes_per_notifier: per, register_delay: rng.below(4) as usize, targets })
        }
    };
    // lost wake-ups and orphans are only decidable when nothing else could wake a parked task
    let mode = if check == "C15" || check == "C07" || rng.chance(1, 4) { SchedMode::Any } else { SchedMode::Strict };
    let mut sched = checks::sched_for(seed, idx, mode);
    sched.n1 = checks::N1;
    sched.n2 = checks::N2;
    (comp, sched)
}

pub struct ComponentOutput {
    pub findings: Vec<Finding>,
    pub harness: Vec<String>,
    pub stats: CaseStats,
    pub trace: Option<Trace>,
    pub summary: String,
}

fn property_of(c: &Component) -> &'static str {
    match c {
        Component::Cursor(_) | Component::Frontier(_) => "C15",
        Component::Dependency(_) | Component::Replace(_) => "C16",
        Component::Wait(_) => "C17",
        Component::History(_) => "C07",
    }
}

/// Seeded scenario for the beneficiary-history component: 2-4 entries; per entry a chain of rising
/// incarnations with unique effects (every reward amount and snapshot balance occurs once, so an
/// account value identifies the versions it was folded from), scattered over 2-3 tasks in an order
/// that makes some publications stale; invalidations of current, stale and future incarnations;
/// reads before assorted transactions, re-validated while writers are still active. A third of the
/// scenarios put the anchor or a snapshot within reach of U256::MAX so that the order of the
/// checked additions matters.
fn plan_history(rng: &mut Prng, big: bool) -> HistScenario {
    let n = rng.range(2, if big { 5 } else { 4 }) as usize;
    let near_max = rng.chance(1, 3);
    let mut uniq = 0u64;
    let mut amount = |rng: &mut Prng, near_max: bool| -> U256 {
        uniq += 1;
        if near_max && rng.chance(1, 2) { U256::MAX - U256::from(1000 + uniq * 7) } else { U256::from(1000 * uniq + rng.below(900)) }
    };
    let anchor = match rng.below(4) {
        0 => None,
        _ => Some((if near_max { U256::MAX - U256::from(5000u64 + rng.below(5000)) } else { U256::from(1_000_000u64 + rng.below(1000)) }, rng.below(3))),
    };
    let n_tasks = rng.range(2, 3) as usize;
    let mut tasks: Vec<Vec<HistOp>> = vec![Vec::new(); n_tasks];
    // writer operations, grouped per entry in incarnation order, then scattered
    let mut pool: Vec<HistOp> = Vec::new();
    for tx in 0..n {
        let incs = rng.below(4) as usize;
        for inc in 1..=incs {
            let effect = match rng.below(10) {
                0 => HistEffect::Estimate,
                1 | 2 => HistEffect::Unchanged,
                3 | 4 => HistEffect::Snapshot(if rng.chance(1, 4) { None } else { Some((amount(rng, near_max), 1 + rng.below(3))) }),
                _ => HistEffect::Reward(amount(rng, near_max)),
            };
            pool.push(HistOp::Record { tx, inc, effect });
            if rng.chance(1, 6) {
                // a second publication for an incarnation that already published (or for incarnation 0):
                // the first one must win
                let dup_inc = if rng.chance(1, 4) { 0 } else { inc };
                let effect = if rng.chance(1, 2) { HistEffect::Estimate } else { HistEffect::Reward(amount(rng, near_max)) };
                pool.push(HistOp::Record { tx, inc: dup_inc, effect });
            }
            if rng.chance(2, 5) {
                // validation failure of this incarnation, of an older one, or a duplicate
                let target = if rng.chance(3, 4) { inc } else { rng.below(inc as u64 + 2) as usize };
                pool.push(HistOp::Invalidate { tx, inc: target });
            }
        }
    }
    // mostly in order (as the scheduler produces them), with local swaps so that stale operations arrive late
    for _ in 0..rng.below(4) {
        if pool.len() >= 2 {
            let i = rng.below(pool.len() as u64 - 1) as usize;
            let j = (i + 1 + rng.below(2) as usize).min(pool.len() - 1);
            pool.swap(i, j);
        }
    }
    for op in pool {
        let t = rng.below(n_tasks as u64) as usize;
        tasks[t].push(op);
        if rng.chance(1, 5) {
            tasks[t].push(HistOp::Yield);
        }
    }
    // reads sprinkled into the tasks
    for task in tasks.iter_mut() {
        let reads = rng.range(1, 3) as usize;
        for k in 0..reads {
            let pos = rng.below(task.len() as u64 + 1) as usize;
            task.insert(pos, HistOp::Resolve { t: rng.range(1, n as u64) as usize });
            if rng.chance(1, 2) {
                task.push(HistOp::Revalidate { k });
            }
        }
    }
    HistScenario { n, anchor, tasks }
}

pub fn run_component(comp: &Component, sched: &SchedSpec, replay: Option<Trace>, record_trace: bool) -> ComponentOutput {
    let property = property_of(comp);
    let c = comp.clone();
    let body: run::CustomBody = Arc::new(move || {
        let report: DriverReport = match &c {
            Component::Cursor(s) => sched::cursor_claim_rewind(s),
            Component::Frontier(s) => sched::frontier(s),
            Component::Dependency(s) => sched::tx_dependency(s),
            Component::Replace(s) => sched::dependency_replace(s),
            Component::Wait(s) => sched::wait_slot(s),
            Component::History(s) => grevm::verif::drivers::beneficiary_history(s),
        };
        Box::new(report) as Box<dyn std::any::Any + Send>
    });
    let r = run::run_custom(body, sched, replay, record_trace);
    let mut findings = Vec::new();
    let mut harness = Vec::new();
    let mut stats = CaseStats {
        decisions: r.sched.decisions,
        steps: r.steps,
        context_switches: r.sched.context_switches,
        preemptions: r.sched.preemptions,
        fair_phase_entered: r.sched.fair_phase_entered,
        fair_decisions: r.sched.fair_decisions,
        spurious_wakes: r.sched.spurious_wakes,
        starve_applied: r.sched.starve_applied,
        pauses_applied: r.sched.pauses_applied,
        rt_faults: r.fault_counts,
        trace_hash: r.trace_hash,
        ..CaseStats::default()
    };
    let mut summary = String::new();
    match r.verdict {
        Verdict::CustomCompleted => {
            stats.completed = true;
            if let Some(report) = r.custom.and_then(|b| b.downcast::<DriverReport>().ok()) {
                for (class, detail) in &report.violations {
                    findings.push(Finding { property, class: class.to_string(), detail: detail.clone() });
                }
                stats.behaviour = report.behaviour;
                stats.nontrivial = report.nontrivial;
                stats.workload = report.counters.clone();
                summary = format!("completed, {} violations", report.violations.len());
            } else {
                harness.push("component report missing".into());
            }
        }
        Verdict::Deadlock(msg) => {
            stats.nontrivial = true;
            stats.behaviour = 0xdead;
            let class = match comp {
                Component::Wait(_) => "wait.lost_wakeup",
                Component::History(_) => "history.deadlock",
                Component::Dependency(_) | Component::Replace(_) => "dependency.orphan_deadlock",
                _ => "cursor.deadlock",
            };
            findings.push(Finding {
                property,
                class: class.into(),
                detail: format!("no runnable task while some are unfinished (nothing but a timeout could wake them): {msg}"),
            });
            summary = "deadlock".into();
        }
        Verdict::StepBound => {
            stats.nontrivial = true;
            stats.behaviour = 0x57e9;
            let class = match comp {
                Component::Wait(_) => "wait.no_progress",
                Component::History(_) => "history.no_progress",
                Component::Dependency(_) | Component::Replace(_) => "dependency.orphan_livelock",
                _ => "cursor.no_progress",
            };
            findings.push(Finding { property, class: class.into(), detail: "the scenario did not finish inside the fair phase".into() });
            summary = "step bound".into();
        }
        Verdict::HarnessError(m) => harness.push(m),
        Verdict::Completed(_) => harness.push("pipeline result in a component case".into()),
    }
    ComponentOutput { findings, harness, stats, trace: record_trace.then_some(r.sched.trace), summary }
}

pub fn case_record(check: &str, tier: Tier, seed: u64, idx: u64) -> CaseRecord {
    let (comp, sched) = plan(check, seed, idx, tier);
    let out = run_component(&comp, &sched, None, false);
    let sample = (idx < 3).then(|| json!({"component": comp.to_json(), "strategy": sched.strategy, "strict": sched.strict, "decisions": out.stats.decisions, "result": out.summary}));
    CaseRecord { idx, findings: out.findings, harness_errors: out.harness, stats: out.stats, sample, group: comp.group() }
}

fn minimise(check: &str, seed: u64, idx: u64, comp: &Component, sched: &SchedSpec, finding: &Finding, deadline: Instant) -> ReplayFile {
    let class = finding.class.clone();
    let fails = |t: Option<Trace>, rec: bool| {
        let out = run_component(comp, sched, t, rec);
        out.findings.into_iter().find(|f| f.class == class).map(|f| (f, out.trace))
    };
    let mut detail = finding.detail.clone();
    let mut trace = Trace::default();
    if let Some((f, Some(t))) = fails(None, true) {
        detail = f.detail;
        trace = t;
    }
    if !trace.tasks.is_empty() && fails(Some(trace.clone()), false).is_some() {
        let (mut lo, mut hi) = (0usize, trace.tasks.len());
        while lo < hi && Instant::now() < deadline {
            let mid = (lo + hi) / 2;
            let cand = Trace { tasks: trace.tasks[..mid].to_vec(), randoms: trace.randoms.clone() };
            if fails(Some(cand), false).is_some() {
                hi = mid;
            } else {
                lo = mid + 1;
            }
        }
        let cand = Trace { tasks: trace.tasks[..hi].to_vec(), randoms: trace.randoms.clone() };
        if let Some((f, _)) = fails(Some(cand.clone()), false) {
            trace = cand;
            detail = f.detail;
        }
        let mut i = trace.tasks.len();
        while i > 1 && Instant::now() < deadline {
            i -= 1;
            if trace.tasks[i] != trace.tasks[i - 1] {
                let mut cand = trace.clone();
                cand.tasks[i] = cand.tasks[i - 1];
                if let Some((f, _)) = fails(Some(cand.clone()), false) {
                    trace = cand;
                    detail = f.detail;
                }
            }
        }
    }
    ReplayFile {
        check: check.to_string(),
        property: finding.property.to_string(),
        class,
        detail,
        seed,
        case_index: idx,
        scenario: Scenario::empty(),
        sched: sched.clone(),
        trace,
        extra: json!({"component": comp.to_json()}),
    }
}

pub fn replay(file: &ReplayFile, path: &Path) -> i32 {
    if !file.extra["miri"].is_null() {
        return crate::miri::replay(&file.extra, path, &file.property, &file.class);
    }
    let comp = Component::from_json(&file.extra["component"]);
    let out = run_component(&comp, &file.sched, Some(file.trace.clone()), false);
    for h in &out.harness {
        println!("HARNESS-ERROR replay: {h}");
    }
    println!("replay {}: {}", path.display(), out.summary);
    match out.findings.iter().find(|f| f.class == file.class) {
        Some(f) => {
            println!("VIOLATION property={} replay={} class={}", f.property, path.display(), f.class);
            println!("  detail={}", f.detail);
            1
        }
        None => {
            println!("replay did not reproduce the violation (class={})", file.class);
            if out.harness.is_empty() { 0 } else { 2 }
        }
    }
}

/// Component part of a check: returns (aggregate, wall seconds, violations printed, known hits, exit code).
pub fn run_component_batch(check: &str, tier: Tier, seed: u64, runs: u64) -> (batch::Aggregate, f64, u64, u64, i32) {
    let case = |idx: u64| case_record(check, tier, seed, idx);
    let (agg, wall) = batch::run_batch(runs, checks::jobs(), 4, None, &case);
    let known = known::load();
    let mut exit = 0;
    let mut violations = 0;
    let mut known_hits = 0;
    for (idx, e) in &agg.harness_errors {
        println!("HARNESS-ERROR check={check} case={idx}: {e}");
        exit = 2;
    }
    let mut seen: Vec<String> = Vec::new();
    for (idx, f) in &agg.findings {
        if seen.contains(&f.class) {
            continue;
        }
        seen.push(f.class.clone());
        let (comp, sched) = plan(check, seed, *idx, tier);
        let file = minimise(check, seed, *idx, &comp, &sched, f, Instant::now() + Duration::from_secs(30));
        let path = file.write();
        let exe = std::env::current_exe().unwrap();
        let reproduced = std::process::Command::new(exe)
            .arg("replay")
            .arg(&path)
            .output()
            .map(|o| o.status.code() == Some(1) && String::from_utf8_lossy(&o.stdout).contains(&format!("class={}", file.class)))
            .unwrap_or(false);
        if !reproduced {
            println!("HARNESS-ERROR check={check} case={idx}: finding {} did not reproduce from {}", f.class, path.display());
            exit = 2;
            continue;
        }
        if let Some(k) = known.iter().find(|k| k.matches(&file)) &&
            k.status == "known"
        {
            println!("KNOWN-FINDING: property={} {} (class={}, replay={})", k.property, k.what, file.class, path.display());
            known_hits += 1;
            continue;
        }
        violations += 1;
        println!("VIOLATION property={} replay={}", file.property, path.display());
        println!("  class={} case={} detail={}", file.class, idx, file.detail.chars().take(600).collect::<String>());
        if exit == 0 {
            exit = 1;
        }
    }
    (agg, wall, violations, known_hits, exit)
}

pub fn run_component_check(check: &str, tier: Tier, seed: u64) -> i32 {
    let runs = std::env::var("VERIF_RUNS").ok().and_then(|s| s.parse().ok()).unwrap_or(if tier == Tier::Quick { 300_000u64 } else { 20_000_000 });
    let (mut agg, mut wall, mut violations, mut known_hits, mut exit) = run_component_batch(check, tier, seed, runs);
    // C15(c), C16(2), C17(2): the same invariants on the real pipeline (trace monitor / strict runs)
    let pipeline_runs = std::env::var("VERIF_RUNS").ok().and_then(|s| s.parse().ok()).unwrap_or(if tier == Tier::Quick { 150_000u64 } else { 3_000_000 });
    let (agg2, wall2, v2, k2, e2) = checks::run_pipeline_part(check, tier, seed, pipeline_runs);
    for (k, v) in agg2.counters.iter() {
        *agg.counters.entry(k).or_insert(0) += v;
    }
    for (k, v) in agg2.groups.iter() {
        *agg.groups.entry(k).or_insert(0) += v;
    }
    agg.evaluations += agg2.evaluations;
    agg.completed += agg2.completed;
    agg.decisions += agg2.decisions;
    agg.steps += agg2.steps;
    agg.context_switches += agg2.context_switches;
    agg.preemptions += agg2.preemptions;
    agg.nontrivial += agg2.nontrivial;
    agg.fair_phase_entered += agg2.fair_phase_entered;
    agg.max_fair_decisions = agg.max_fair_decisions.max(agg2.max_fair_decisions);
    agg.behaviours_nontrivial.extend(agg2.behaviours_nontrivial.iter());
    agg.behaviours_all.extend(agg2.behaviours_all.iter());
    agg.trace_hashes.extend(agg2.trace_hashes.iter());
    agg.samples.extend(agg2.samples.into_iter().take(1));
    wall += wall2;
    violations += v2;
    known_hits += k2;
    exit = exit.max(e2);

    // weak-memory sampling of the same production files under Miri
    let miri = crate::miri::run(check, tier == Tier::Thorough, seed);
    for e in &miri.harness_errors {
        println!("HARNESS-ERROR check={check} miri: {e}");
        exit = exit.max(2);
    }
    for (scenario, miri_seed, msg) in &miri.violations {
        let file = ReplayFile {
            check: check.to_string(),
            property: check.to_string(),
            class: format!("miri.{scenario}"),
            detail: msg.clone(),
            seed,
            case_index: *miri_seed,
            scenario: Scenario::empty(),
            sched: checks::sched_for(seed, 0, SchedMode::Any),
            trace: Trace::default(),
            extra: json!({"miri": {"scenario": scenario, "seed": miri_seed}}),
        };
        let path = file.write();
        violations += 1;
        println!("VIOLATION property={check} replay={}", path.display());
        println!("  class=miri.{scenario} miri_seed={miri_seed} detail={msg}");
        if exit == 0 {
            exit = 1;
        }
    }

    let rule = match check {
        "C15" => "cases = (a) production SchedulerContext with 1-3 claimer tasks and 1-2 rewinder tasks on 2-8 indices, (b) ExecutionFrontier with 1-3 publishers (arbitrary order, gaps, duplicates) and 1-2 readers, (c) real pipeline runs with the finality/rewind trace monitor; non-trivial = an effective rewind below the cursor / a frontier value that moved / a pipeline run with re-execution; distinct = distinct event log digest",
        "C16" => "cases = production TxDependency with 2-5 transactions, 1-3 worker tasks and a commit task driven with the call protocol of scheduler.rs from seeded per-transaction scripts (conflict on predecessor / error parked behind the commit boundary / success), plus strict-mode pipeline runs with conflict and fault profiles; non-trivial = some transaction executed more than once; distinct = distinct (claims, re-onboardings) vector",
        _ => "cases = production WaitSlot with one waiter (production loop shape, registering at a seeded point) and 1-2 notifiers doing publish-then-notify, strict mode (park never times out) and spurious-wake mode, plus strict-mode pipeline runs; non-trivial = the waiter really parked; distinct = distinct (wake-ups, parks) digest",
    };
    let meta = EvidenceMeta {
        property: check,
        tier: tier.name(),
        seed,
        level: "exploration",
        rule,
        assumptions: vec![
            "the simulated memory model is sequential consistency; weak-memory reorderings permitted by the declared orderings are sampled separately by the Miri part of this check (see coverage.extra)".into(),
            "component drivers perform only call sequences the real scheduler can perform (reviewed against scheduler.rs)".into(),
            "seeded sampling of schedules is evidence, not proof".into(),
        ],
        real_components: vec!["SchedulerContext / RewindableCursor / PublishedCursor / ExecutionFrontier / TxDependency / WaitSlot (production code, called directly)", "the full pipeline for the trace-monitor part"],
        replaced_components: checks::REPLACED.to_vec(),
        stubbed_components: vec!["the scheduler's call protocol around TxDependency (driver mirrors scheduler.rs)", "backing database and precompiles in the pipeline part"],
        extra: json!({"jobs": checks::jobs(), "component_runs": runs, "pipeline_runs": pipeline_runs, "miri": miri.report}),
    };
    batch::write_evidence(&meta, &agg, wall, violations, known_hits);
    println!(
        "check {check} {}: {} runs in {:.1}s, {} decisions, {} non-trivial, {} distinct behaviours, violations={} known={} exit={}",
        tier.name(),
        agg.evaluations,
        wall,
        agg.decisions,
        agg.nontrivial,
        agg.behaviours_nontrivial.len(),
        violations,
        known_hits,
        exit
    );
    exit
}
