//! Seeded workload generator: spec, pre-state, block, Grevm configuration, fault plan — one profile per
//! property family over a deliberately tiny universe (<= 6 EOAs, <= 5 contracts, <= 4 hot slots, 1-8
//! transactions) so that conflicts, re-executions, rewinds and fallbacks are the norm.

use crate::evmasm::{self, CallKind, Expr, Stmt, add, addr_expr, imm, sload};
use crate::prng::Prng;
use crate::scenario::*;
use revm_primitives::{Address, B256, Bytes, U256, hardfork::SpecId};

pub fn addr(n: u64) -> Address {
    Address::from_word(B256::from(U256::from(n)))
}

pub fn eoa(i: usize) -> Address {
    addr(0x1000 + i as u64)
}

pub fn contract(i: usize) -> Address {
    addr(0x2000 + i as u64)
}

pub fn precompile_addr(i: usize) -> Address {
    addr(0x3000 + i as u64)
}

pub const DEFAULT_BENEFICIARY: u64 = 0xc0ffee;
pub const ETHER: u128 = 1_000_000_000_000_000_000;

#[derive(Clone, Copy, Debug, PartialEq, Eq)]
pub enum Profile {
    Mixed,
    Conflict,
    Invalid,
    Beneficiary,
    Lifecycle,
    Code,
    Precompile,
    Reserve,
}

impl Profile {
    pub fn name(self) -> &'static str {
        match self {
            Profile::Mixed => "mixed",
            Profile::Conflict => "conflict",
            Profile::Invalid => "invalid",
            Profile::Beneficiary => "beneficiary",
            Profile::Lifecycle => "lifecycle",
            Profile::Code => "code",
            Profile::Precompile => "precompile",
            Profile::Reserve => "reserve",
        }
    }
}

#[derive(Clone, Debug)]
pub struct GenOptions {
    pub profile: Profile,
    pub max_txs: usize,
    pub max_workers: usize,
    /// allow a second block on the same state
    pub two_blocks: bool,
    /// restrict to these specs (empty = all)
    pub specs: Vec<SpecId>,
}

pub struct Gen<'a> {
    pub rng: &'a mut Prng,
    pub spec: SpecId,
    pub n_eoa: usize,
    pub n_contract: usize,
    pub hot_slots: u64,
    pub beneficiary: Address,
    pub extra_addrs: Vec<Address>,
}

impl Gen<'_> {
    fn any_eoa(&mut self) -> Address {
        eoa(self.rng.below(self.n_eoa as u64) as usize)
    }

    fn any_contract(&mut self) -> Address {
        contract(self.rng.below(self.n_contract.max(1) as u64) as usize)
    }

    fn any_addr(&mut self) -> Address {
        match self.rng.below(10) {
            0..=3 => self.any_eoa(),
            4..=6 => self.any_contract(),
            7 => self.beneficiary,
            8 if !self.extra_addrs.is_empty() => *self.rng.pick(&self.extra_addrs.clone()),
            _ => addr(0x9000 + self.rng.below(3)),
        }
    }

    fn hot_key(&mut self) -> Expr {
        imm(self.rng.below(self.hot_slots))
    }

    /// A key expression: immediate hot slot, calldata-selected, or data-dependent (pointer chase).
    fn key_expr(&mut self) -> Expr {
        match self.rng.below(12) {
            0..=4 => self.hot_key(),
            // a pointer target read or written directly: the location another transaction reaches
            // only through a data-dependent key (and may withdraw on re-execution)
            10..=11 => imm(100 + self.rng.below(4)),
            5..=6 => Expr::And(Box::new(Expr::CallData(0)), Box::new(imm(self.hot_slots.next_power_of_two() - 1))),
            7..=8 => {
                // slot(100 + (sload(k) & 3)) : a stale read of k touches a DIFFERENT key
                let k = self.hot_key();
                add(imm(100), Expr::And(Box::new(sload(k)), Box::new(imm(3))))
            }
            _ => Expr::And(Box::new(Expr::Acc), Box::new(imm(3))),
        }
    }

    fn value_expr(&mut self) -> Expr {
        match self.rng.below(8) {
            0..=1 => imm(self.rng.below(5)),
            2..=3 => {
                let k = self.hot_key();
                add(sload(k), imm(1))
            }
            4 => Expr::CallData(1),
            5 => Expr::Acc,
            6 => add(Expr::CallData(1), imm(self.rng.below(3))),
            _ => imm(0),
        }
    }

    fn addr_value(&mut self) -> Expr {
        let a = self.any_addr();
        addr_expr(a)
    }

    pub fn stmt(&mut self, weights: &StmtWeights, depth: u32) -> Stmt {
        loop {
            let w = [
                weights.mix_sload,
                weights.sstore,
                weights.balance,
                weights.coinbase,
                weights.extcode,
                if depth < 2 { weights.call } else { 0 },
                weights.revert_if,
                weights.log,
                weights.env,
                weights.selfdestruct,
                if depth < 1 { weights.create } else { 0 },
            ];
            let s = match self.rng.pick_weighted(&w) {
                0 => Stmt::Mix(sload(self.key_expr())),
                1 => {
                    let k = self.key_expr();
                    let v = self.value_expr();
                    Stmt::Sstore(k, v)
                }
                2 => match self.rng.below(3) {
                    0 => Stmt::Mix(Expr::SelfBalance),
                    _ => Stmt::Mix(Expr::Balance(Box::new(self.addr_value()))),
                },
                3 => match self.rng.below(4) {
                    0 => Stmt::Mix(Expr::Balance(Box::new(Expr::Coinbase))),
                    1 => Stmt::Mix(Expr::ExtCodeHash(Box::new(Expr::Coinbase))),
                    2 => Stmt::Mix(Expr::ExtCodeSize(Box::new(Expr::Coinbase))),
                    _ => Stmt::Call {
                        kind: CallKind::Call,
                        to: Expr::Coinbase,
                        value: imm(self.rng.below(3)),
                        arg0: self.hot_key(),
                        arg1: imm(1),
                        gas: 60_000,
                    },
                },
                4 => match self.rng.below(3) {
                    0 => Stmt::Mix(Expr::ExtCodeSize(Box::new(self.addr_value()))),
                    1 => Stmt::Mix(Expr::ExtCodeHash(Box::new(self.addr_value()))),
                    _ => Stmt::ExtCodeCopyMix(self.addr_value()),
                },
                5 => {
                    let kind = match self.rng.below(6) {
                        0 => CallKind::Static,
                        1 => CallKind::Delegate,
                        _ => CallKind::Call,
                    };
                    let to = if self.rng.chance(3, 4) { addr_expr(self.any_contract()) } else { self.addr_value() };
                    Stmt::Call {
                        kind,
                        to,
                        value: if self.rng.chance(1, 3) { imm(self.rng.below(1000)) } else { imm(0) },
                        arg0: if self.rng.chance(1, 2) { Expr::CallData(0) } else { self.hot_key() },
                        arg1: self.value_expr(),
                        gas: 100_000 + self.rng.below(100_000),
                    }
                }
                6 => Stmt::RevertIf(match self.rng.below(3) {
                    0 => Expr::And(Box::new(sload(self.hot_key())), Box::new(imm(1))),
                    1 => Expr::And(Box::new(Expr::CallData(1)), Box::new(imm(1))),
                    _ => Expr::And(Box::new(Expr::Acc), Box::new(imm(1))),
                }),
                7 => Stmt::Log(self.hot_key()),
                8 => match self.rng.below(6) {
                    0 => Stmt::Mix(Expr::Number),
                    1 => Stmt::Mix(Expr::Timestamp),
                    2 => Stmt::Mix(Expr::Caller),
                    3 => Stmt::Mix(Expr::Origin),
                    4 => {
                        if self.rng.chance(1, 2) {
                            Stmt::Mix(Expr::BlockHash(Box::new(imm(90 + self.rng.below(10)))))
                        } else {
                            // relative to the executing block: the newest, the oldest two still served (two
                            // consecutive blocks then ask for numbers exactly 256 apart) and one too old
                            let k = *self.rng.pick(&[1u64, 1, 2, 255, 256, 256, 257]);
                            Stmt::Mix(Expr::BlockHash(Box::new(add(Expr::Number, Expr::Imm(U256::ZERO.wrapping_sub(U256::from(k)))))))
                        }
                    }
                    _ => Stmt::Mix(Expr::CallValue),
                },
                9 => Stmt::SelfDestruct(self.addr_value()),
                _ => {
                    let runtime = evmasm::compile(&[Stmt::Mix(sload(imm(0))), Stmt::Sstore(imm(0), add(sload(imm(0)), imm(1)))]);
                    let ctor = if self.rng.chance(1, 2) { vec![Stmt::Sstore(imm(0), imm(7))] } else { vec![] };
                    let init = evmasm::compile_init(&ctor, &runtime);
                    if self.rng.chance(1, 2) {
                        Stmt::Create { init, value: imm(self.rng.below(3)) }
                    } else {
                        Stmt::Create2 { init, value: imm(0), salt: imm(self.rng.below(2)) }
                    }
                }
            };
            // mostly keep to opcodes that exist on the selected fork (1 in 16 slips through on purpose)
            if evmasm::stmt_min_spec(&s) <= self.spec || self.rng.chance(1, 16) {
                return s;
            }
        }
    }

    pub fn program(&mut self, weights: &StmtWeights, min: u64, max: u64) -> Vec<Stmt> {
        let n = self.rng.range(min, max);
        (0..n).map(|_| self.stmt(weights, 0)).collect()
    }
}

#[derive(Clone, Debug)]
pub struct StmtWeights {
    pub mix_sload: u32,
    pub sstore: u32,
    pub balance: u32,
    pub coinbase: u32,
    pub extcode: u32,
    pub call: u32,
    pub revert_if: u32,
    pub log: u32,
    pub env: u32,
    pub selfdestruct: u32,
    pub create: u32,
}

impl StmtWeights {
    pub fn for_profile(p: Profile) -> Self {
        match p {
            Profile::Conflict => Self { mix_sload: 30, sstore: 40, balance: 3, coinbase: 1, extcode: 1, call: 8, revert_if: 4, log: 1, env: 1, selfdestruct: 0, create: 0 },
            Profile::Beneficiary => Self { mix_sload: 10, sstore: 12, balance: 8, coinbase: 30, extcode: 2, call: 8, revert_if: 3, log: 1, env: 1, selfdestruct: 1, create: 0 },
            Profile::Lifecycle => Self { mix_sload: 14, sstore: 14, balance: 8, coinbase: 2, extcode: 12, call: 12, revert_if: 4, log: 0, env: 1, selfdestruct: 10, create: 10 },
            Profile::Code => Self { mix_sload: 12, sstore: 12, balance: 6, coinbase: 1, extcode: 25, call: 20, revert_if: 3, log: 0, env: 1, selfdestruct: 1, create: 6 },
            _ => Self { mix_sload: 18, sstore: 20, balance: 8, coinbase: 5, extcode: 6, call: 12, revert_if: 5, log: 2, env: 4, selfdestruct: 2, create: 3 },
        }
    }
}

fn calldata(words: &[U256]) -> Bytes {
    let mut v = Vec::with_capacity(words.len() * 32);
    for w in words {
        v.extend_from_slice(&w.to_be_bytes::<32>());
    }
    Bytes::from(v)
}

pub struct TxGen {
    /// next expected nonce per EOA index as the generator believes it (assuming all valid txs execute)
    pub nonces: Vec<u64>,
}

pub fn base_tx(caller: Address, to: Option<Address>, nonce: u64, spec: SpecId, basefee: u64, rng: &mut Prng) -> TxSpec {
    let london = spec >= SpecId::LONDON;
    let (tx_type, gas_price, priority_fee) = if london && rng.chance(1, 2) {
        let tip = rng.below(5) as u128;
        (2u8, basefee as u128 + tip + rng.below(20) as u128, Some(tip))
    } else {
        (0u8, basefee as u128 + rng.below(30) as u128, None)
    };
    TxSpec {
        caller,
        to,
        value: U256::ZERO,
        data: Bytes::new(),
        gas_limit: 400_000 + rng.below(400_000),
        gas_price,
        priority_fee,
        nonce,
        chain_id: if tx_type != 0 || (spec >= SpecId::SPURIOUS_DRAGON && rng.chance(3, 4)) { Some(1) } else { None },
        tx_type,
        auths: vec![],
        access_list: vec![],
        blob_hashes: vec![],
        max_fee_per_blob_gas: 0,
        label: String::new(),
    }
}

/// Blob gas price for an excess (EIP-4844 fake exponential, Prague update fraction) - only used to pick
/// fee caps around the price; the verdicts come from revm.
fn blob_price(excess: u64) -> u128 {
    let (factor, numerator, denominator) = (1u128, excess as u128, 5_007_716u128);
    let mut i = 1u128;
    let mut output = 0u128;
    let mut accum = factor * denominator;
    while accum > 0 {
        output += accum;
        accum = accum * numerator / (denominator * i);
        i += 1;
    }
    output / denominator
}

/// EIP-4844 post-pass (Cancun and later), driven by its OWN generator derived from the scenario seed so
/// that every other choice of `generate` is what it was before blob transactions existed: some ordinary
/// type-2 calls become blob transactions (type 3: 1-3 versioned hashes, a blob fee cap at / above the
/// block's blob gas price - the blob fee is burned, counts towards the maximum cost of the transaction
/// and is not part of the fee recipient's reward); in the invalid profile the LAST transaction of a
/// sender may become a malformed blob transaction (no blobs, wrong version byte, cap below the price,
/// too many blobs, blob CREATE).
fn blob_pass(seed: u64, profile: Profile, spec: SpecId, block: &mut crate::scenario::BlockSpec, txs: &mut [TxSpec]) {
    if spec < SpecId::CANCUN {
        return;
    }
    let mut rng = Prng::new(crate::prng::derive(seed, 0xb10b_4844));
    block.excess_blob_gas = *rng.pick(&[0u64, 0, 5_000_000, 12_000_000, 20_000_000]);
    let price = blob_price(block.excess_blob_gas);
    let hash = |rng: &mut Prng, version: u8| {
        let mut h = B256::from(U256::from(rng.next_u64()));
        h.0[0] = version;
        h
    };
    let n = txs.len();
    for i in 0..n {
        let last_of_sender = !txs[i + 1..].iter().any(|t| t.caller == txs[i].caller);
        let tx = &mut txs[i];
        let eligible = tx.to.is_some() && tx.tx_type == 2 && tx.auths.is_empty() && !tx.label.contains('+');
        if !eligible {
            continue;
        }
        let own = tx.label == "own-tx-of-delegated";
        let convert = if own { rng.chance(1, 3) } else { rng.chance(1, 8) };
        if !convert {
            continue;
        }
        tx.tx_type = 3;
        tx.chain_id = Some(1);
        let blobs = rng.range(1, 3);
        tx.blob_hashes = (0..blobs).map(|_| hash(&mut rng, 1)).collect();
        // own transactions of a delegated account: a cap on the scale of the transaction's gas fee, so
        // that the blob term of the maximum cost matters at the margin of the reserve
        tx.max_fee_per_blob_gas = price + if own { *rng.pick(&[0u128, 30, 100, 120]) } else { *rng.pick(&[0u128, 1, 50]) };
        tx.label.push_str("/blob");
        if profile == Profile::Invalid && last_of_sender && rng.chance(1, 2) {
            match rng.below(5) {
                0 => {
                    tx.blob_hashes.clear();
                    tx.label.push_str("+no-blobs");
                }
                1 => {
                    tx.blob_hashes[0] = hash(&mut rng, 2);
                    tx.label.push_str("+blob-version");
                }
                2 => {
                    tx.max_fee_per_blob_gas = price - 1;
                    tx.label.push_str("+blob-fee-below-price");
                }
                3 => {
                    tx.blob_hashes = (0..10).map(|_| hash(&mut rng, 1)).collect();
                    tx.label.push_str("+too-many-blobs");
                }
                _ => {
                    tx.to = None;
                    tx.label.push_str("+blob-create");
                }
            }
        }
    }
}

fn pick_spec(rng: &mut Prng, allowed: &[SpecId], bias_recent: bool) -> SpecId {
    let pool: Vec<SpecId> = if allowed.is_empty() { ALL_SPECS.to_vec() } else { allowed.to_vec() };
    if bias_recent && rng.chance(1, 2) {
        let recent: Vec<SpecId> = pool.iter().copied().filter(|s| *s >= SpecId::LONDON).collect();
        if !recent.is_empty() {
            return *rng.pick(&recent);
        }
    }
    *rng.pick(&pool)
}

/// Generate a scenario for `profile` from `seed` (a pure function of its arguments).
pub fn generate(seed: u64, opts: &GenOptions) -> Scenario {
    let mut rng = Prng::new(crate::prng::derive(seed, 0x3a11_0000 + opts.profile as u64));
    let rng = &mut rng;
    let profile = opts.profile;
    let spec = match profile {
        Profile::Code | Profile::Reserve => {
            if rng.chance(3, 4) {
                *rng.pick(&[SpecId::PRAGUE, SpecId::OSAKA])
            } else {
                pick_spec(rng, &opts.specs, true)
            }
        }
        _ => pick_spec(rng, &opts.specs, true),
    };
    let n_eoa = rng.range(2, 6) as usize;
    let n_contract = rng.range(1, 5) as usize;
    let hot_slots = rng.range(1, 4);
    let basefee = if spec >= SpecId::LONDON { rng.range(0, 20) } else { 0 };

    // ---- beneficiary role
    let beneficiary = match profile {
        Profile::Beneficiary => match rng.below(8) {
            0 => eoa(0),
            1 => eoa(rng.below(n_eoa as u64) as usize),
            2 | 3 => contract(rng.below(n_contract as u64) as usize),
            4 => addr(0x9000),
            _ => addr(DEFAULT_BENEFICIARY),
        },
        _ => match rng.below(12) {
            0 => eoa(rng.below(n_eoa as u64) as usize),
            1 => contract(rng.below(n_contract as u64) as usize),
            _ => addr(DEFAULT_BENEFICIARY),
        },
    };

    let mut g = Gen { rng, spec, n_eoa, n_contract, hot_slots, beneficiary, extra_addrs: vec![] };
    let weights = StmtWeights::for_profile(profile);

    // ---- pre-state
    let mut pre_state = Vec::new();
    let mut nonces = Vec::new();
    for i in 0..n_eoa {
        let nonce = g.rng.below(3);
        nonces.push(nonce);
        let balance = match g.rng.below(if profile == Profile::Invalid { 8 } else { 30 }) {
            0 => U256::from(g.rng.below(3_000_000)), // poor: some txs cannot pay
            _ => U256::from(1000u128 * ETHER),
        };
        pre_state.push(AccountSpec { address: eoa(i), balance, nonce, code: Bytes::new(), storage: vec![] });
    }
    for i in 0..n_contract {
        let (min, max) = if profile == Profile::Conflict { (2, 5) } else { (1, 6) };
        let program = g.program(&weights, min, max);
        let code = evmasm::compile(&program);
        let mut storage = Vec::new();
        for k in 0..hot_slots {
            if g.rng.chance(2, 3) {
                storage.push((U256::from(k), U256::from(g.rng.below(4))));
            }
        }
        for k in 100..104u64 {
            if g.rng.chance(1, 2) {
                storage.push((U256::from(k), U256::from(g.rng.below(9) + 1)));
            }
        }
        pre_state.push(AccountSpec {
            address: contract(i),
            balance: U256::from(g.rng.below(5) * 1_000_000),
            nonce: 1,
            code: Bytes::from(code),
            storage,
        });
    }
    // beneficiary pre-state (when it is a dedicated address)
    if beneficiary == addr(DEFAULT_BENEFICIARY) || beneficiary == addr(0x9000) {
        match g.rng.below(6) {
            0 | 1 => {} // absent
            2 => pre_state.push(AccountSpec { address: beneficiary, balance: U256::ZERO, nonce: 0, code: Bytes::new(), storage: vec![] }),
            3 if profile == Profile::Beneficiary => pre_state.push(AccountSpec {
                address: beneficiary,
                balance: U256::MAX - U256::from(g.rng.below(2_000_000)),
                nonce: 0,
                code: Bytes::new(),
                storage: vec![],
            }),
            4 if profile == Profile::Beneficiary => {
                let program = g.program(&weights, 1, 4);
                pre_state.push(AccountSpec {
                    address: beneficiary,
                    balance: U256::from(g.rng.below(1000)),
                    nonce: 1,
                    code: Bytes::from(evmasm::compile(&program)),
                    storage: vec![(U256::from(0), U256::from(5))],
                });
            }
            _ => pre_state.push(AccountSpec {
                address: beneficiary,
                balance: U256::from(g.rng.below(1_000_000)),
                nonce: g.rng.below(2),
                code: Bytes::new(),
                storage: vec![],
            }),
        }
    }

    // ---- structured templates (C08 / C09 / C11 / C13): extra contracts + transaction intents
    let mut precompiles: Vec<PrecompileSpec> = Vec::new();
    let mut intents: Vec<crate::templates::Intent> = Vec::new();
    let mut reserve_policy = false;
    let template_base = n_contract + 1;
    match profile {
        Profile::Conflict if g.rng.chance(8, 10) => {
            intents = if g.rng.chance(1, 6) {
                crate::templates::reward_race(g.rng, n_eoa, template_base, opts.max_txs, &mut pre_state)
            } else {
                let probes = g.rng.chance(1, 2);
                crate::templates::conflict_dense(g.rng, n_eoa, template_base, opts.max_txs, probes, &mut pre_state)
            };
        }
        Profile::Mixed if g.rng.chance(1, 5) => {
            let probes = g.rng.chance(1, 3);
            intents = crate::templates::conflict_dense(g.rng, n_eoa, template_base, opts.max_txs, probes, &mut pre_state);
        }
        Profile::Beneficiary if g.rng.chance(1, 2) => {
            intents = if g.rng.chance(1, 2) {
                crate::templates::conflict_dense(g.rng, n_eoa, template_base, opts.max_txs, true, &mut pre_state)
            } else {
                crate::templates::reward_race(g.rng, n_eoa, template_base, opts.max_txs, &mut pre_state)
            };
        }
        Profile::Lifecycle if g.rng.chance(2, 3) => {
            intents = crate::templates::lifecycle(g.rng, spec, n_eoa, template_base, &mut pre_state);
        }
        Profile::Code if spec >= SpecId::PRAGUE && g.rng.chance(4, 5) => {
            intents = crate::templates::code_7702(g.rng, n_eoa, template_base, hot_slots, &mut pre_state);
        }
        Profile::Precompile => {
            intents = crate::templates::precompile_template(g.rng, spec, n_eoa, n_contract, template_base, beneficiary, &mut pre_state, &mut precompiles);
        }
        Profile::Reserve if spec >= SpecId::PRAGUE => {
            let plan = crate::templates::reserve_template(g.rng, n_eoa, template_base, &mut pre_state);
            intents = plan.intents;
            reserve_policy = true;
        }
        _ => {}
    }

    // ---- transactions: template intents interleaved with random ones; nonces assigned afterwards
    let n_random = if intents.is_empty() {
        g.rng.range(1, opts.max_txs as u64) as usize
    } else {
        g.rng.range(0, (opts.max_txs.saturating_sub(intents.len())).min(3) as u64) as usize
    };
    intents.truncate(opts.max_txs);
    let mut txs: Vec<TxSpec> = Vec::new();
    let mut senders: Vec<usize> = Vec::new();
    let mut tx_auths: Vec<Vec<(Option<usize>, Address, i64, u64)>> = Vec::new();
    for intent in &intents {
        let mut tx = base_tx(eoa(intent.sender), intent.to, 0, spec, basefee, g.rng);
        tx.value = intent.value;
        tx.data = intent.data.clone();
        tx.gas_limit = intent.gas_limit;
        tx.label = intent.label.to_string();
        if !intent.auths.is_empty() {
            tx.tx_type = 4;
            tx.chain_id = Some(1);
            if tx.priority_fee.is_none() {
                tx.priority_fee = Some(0);
            }
        }
        if intent.label == "own-tx-of-delegated" {
            tx.gas_price = tx.gas_price.min(40).max(basefee as u128);
            tx.priority_fee = tx.priority_fee.map(|p| p.min(tx.gas_price));
        }
        senders.push(intent.sender);
        tx_auths.push(intent.auths.clone());
        txs.push(tx);
    }
    for _ in 0..n_random {
        let sender_idx = g.rng.below(n_eoa as u64) as usize;
        let caller = eoa(sender_idx);
        let nonce = 0;
        let kind = match profile {
            Profile::Conflict => g.rng.pick_weighted(&[5, 90, 2, 0, 3]),
            Profile::Beneficiary => g.rng.pick_weighted(&[25, 60, 3, 2, 10]),
            Profile::Invalid => g.rng.pick_weighted(&[35, 45, 5, 0, 15]),
            _ => g.rng.pick_weighted(&[20, 60, 8, 2, 10]),
        };
        let mut tx = base_tx(caller, None, nonce, spec, basefee, g.rng);
        match kind {
            0 => {
                // plain value transfer
                let to = g.any_addr();
                tx.to = Some(to);
                tx.value = U256::from(g.rng.below(5_000));
                tx.gas_limit = 21_000 + g.rng.below(60_000);
                tx.label = "transfer".into();
            }
            1 | 4 => {
                let to = if kind == 4 { beneficiary } else { g.any_contract() };
                tx.to = Some(to);
                tx.data = calldata(&[U256::from(g.rng.below(hot_slots.max(1))), U256::from(g.rng.below(6))]);
                if g.rng.chance(1, 4) {
                    tx.value = U256::from(g.rng.below(2_000));
                }
                tx.label = if kind == 4 { "call-beneficiary".into() } else { "call".into() };
            }
            2 => {
                // contract creation
                let runtime_prog = g.program(&weights, 1, 3);
                let runtime = evmasm::compile(&runtime_prog);
                let ctor = if g.rng.chance(1, 2) { vec![Stmt::Sstore(imm(0), imm(9)), Stmt::Mix(Expr::Balance(Box::new(Expr::Coinbase)))] } else { vec![] };
                tx.to = None;
                tx.data = Bytes::from(evmasm::compile_init(&ctor, &runtime));
                tx.value = U256::from(g.rng.below(3));
                tx.label = "create".into();
            }
            _ => {
                // transfer to the beneficiary itself
                tx.to = Some(beneficiary);
                tx.value = U256::from(g.rng.below(100));
                tx.gas_limit = 21_000 + g.rng.below(40_000);
                tx.label = "transfer-to-beneficiary".into();
            }
        }
        // fee corner cases
        if profile == Profile::Beneficiary || g.rng.chance(1, 10) {
            match g.rng.below(6) {
                0 => {
                    // zero priority fee: zero reward must still touch
                    if tx.tx_type == 2 {
                        tx.priority_fee = Some(0);
                        tx.gas_price = basefee as u128 + g.rng.below(3) as u128;
                    } else {
                        tx.gas_price = basefee as u128;
                    }
                }
                1 => tx.gas_price = basefee as u128, // exactly base fee
                _ => {}
            }
        }
        // rare shapes: self-transfer, value to a stock precompile address, EIP-2930 access lists
        match g.rng.below(24) {
            0 if kind == 0 => {
                tx.to = Some(caller);
                tx.label = "self-transfer".into();
            }
            1 if kind == 0 => {
                tx.to = Some(addr(*g.rng.pick(&[1u64, 2, 3, 4, 9])));
                tx.data = Bytes::from(vec![0x11u8; g.rng.below(40) as usize]);
                tx.gas_limit = 60_000 + g.rng.below(100_000);
                tx.label = "transfer-to-stock-precompile".into();
            }
            2 | 3 | 4 if spec >= SpecId::BERLIN => {
                let target = tx.to.unwrap_or(caller);
                let mut list = vec![(target, (0..g.rng.below(3)).map(|k| B256::from(U256::from(k * 100))).collect::<Vec<_>>())];
                if g.rng.chance(1, 2) {
                    list.push((g.any_addr(), vec![B256::from(U256::from(g.rng.below(3)))]));
                }
                tx.access_list = list;
                if tx.tx_type == 0 {
                    tx.tx_type = 1;
                    tx.chain_id = Some(1);
                }
                tx.label.push_str("+access-list");
            }
            _ => {}
        }
        // random transactions are interleaved at random positions among the template ones
        let at = g.rng.below(txs.len() as u64 + 1) as usize;
        senders.insert(at, sender_idx);
        tx_auths.insert(at, Vec::new());
        txs.insert(at, tx);
    }
    // in-order nonces: the sender's nonce is consumed first, then each valid authorisation bumps its
    // authority (EIP-7702); an authority that is also the sender therefore signs nonce + 1
    for (i, tx) in txs.iter_mut().enumerate() {
        let sender_idx = senders[i];
        tx.nonce = nonces[sender_idx];
        nonces[sender_idx] += 1;
        for (authority, target, offset, chain) in &tx_auths[i] {
            let (authority_addr, nonce) = match authority {
                Some(idx) => {
                    let n = (nonces[*idx] as i64 + offset).max(0) as u64;
                    if *offset == 0 && (*chain == 0 || *chain == 1) {
                        nonces[*idx] += 1;
                    }
                    (Some(eoa(*idx)), n)
                }
                None => (None, 0),
            };
            tx.auths.push(AuthSpec { chain_id: *chain, address: *target, nonce, authority: authority_addr });
        }
    }

    // ---- invalid transactions (any profile may carry a few; the invalid profile carries many)
    let invalid_rate = match profile {
        Profile::Invalid => 45,
        Profile::Conflict => 2,
        _ => 4,
    };
    let mut nonce_shift: Vec<i64> = vec![0; n_eoa];
    for tx in txs.iter_mut() {
        let sender_idx = (0..n_eoa).find(|i| eoa(*i) == tx.caller).unwrap();
        // nonces of later txs of this sender follow the in-order truth unless we break them on purpose
        tx.nonce = (tx.nonce as i64 + nonce_shift[sender_idx]).max(0) as u64;
        if tx.label == "tx-from-authority-stale" {
            // the nonce an earlier authorisation of this block has consumed
            tx.nonce = tx.nonce.saturating_sub(1);
            nonce_shift[sender_idx] -= 1;
            continue;
        }
        if g.rng.below(100) >= invalid_rate {
            continue;
        }
        match g.rng.below(11) {
            9 => {
                // wrong chain id (only checked when the transaction carries one)
                tx.chain_id = Some(2 + g.rng.below(3));
                tx.label.push_str("+wrong-chain-id");
                nonce_shift[sender_idx] -= 1;
            }
            10 => {
                // a transaction type the selected hardfork does not know (or a typed transaction whose
                // fee fields are inconsistent on a fork that does)
                if spec < SpecId::LONDON {
                    tx.tx_type = 2;
                    tx.priority_fee = Some(0);
                } else if spec < SpecId::PRAGUE {
                    tx.tx_type = 4;
                    tx.priority_fee = tx.priority_fee.or(Some(0));
                } else {
                    tx.tx_type = 1;
                }
                tx.chain_id = Some(1);
                tx.label.push_str("+foreign-tx-type");
                if spec < SpecId::PRAGUE {
                    nonce_shift[sender_idx] -= 1;
                }
            }
            0 => {
                tx.nonce += 1 + g.rng.below(2);
                tx.label.push_str("+nonce-too-high");
                nonce_shift[sender_idx] -= 1;
            }
            1 => {
                tx.nonce = tx.nonce.saturating_sub(1 + g.rng.below(2));
                tx.label.push_str("+nonce-too-low");
                nonce_shift[sender_idx] -= 1;
            }
            2 => {
                tx.value = U256::from(2000u128 * ETHER);
                tx.label.push_str("+insufficient-funds");
                nonce_shift[sender_idx] -= 1;
            }
            3 => {
                tx.gas_limit = 20_000 - g.rng.below(1000);
                tx.label.push_str("+intrinsic-gas");
                nonce_shift[sender_idx] -= 1;
            }
            4 if basefee > 0 => {
                tx.gas_price = basefee as u128 - 1;
                if tx.tx_type == 2 {
                    tx.priority_fee = Some(0);
                }
                tx.label.push_str("+fee-below-basefee");
                nonce_shift[sender_idx] -= 1;
            }
            5 if tx.tx_type == 2 => {
                tx.priority_fee = Some(tx.gas_price + 1);
                tx.label.push_str("+priority-above-max");
                nonce_shift[sender_idx] -= 1;
            }
            6 => {
                // sender with code
                tx.caller = contract(g.rng.below(n_contract as u64) as usize);
                tx.nonce = 1;
                tx.label.push_str("+sender-with-code");
                nonce_shift[sender_idx] -= 1;
            }
            7 => {
                // dependent validity: a poor fresh account that an earlier tx may have funded
                tx.caller = addr(0x9000 + g.rng.below(3));
                tx.nonce = 0;
                tx.gas_limit = 21_000 + g.rng.below(30_000);
                tx.gas_price = basefee as u128 + 1;
                tx.priority_fee = tx.priority_fee.map(|_| 0);
                tx.value = U256::from(g.rng.below(10));
                tx.data = Bytes::new();
                tx.to = Some(eoa(0));
                tx.label.push_str("+fresh-sender");
                nonce_shift[sender_idx] -= 1;
            }
            _ => {
                // drain: sends (almost) everything, making the sender's later txs unfundable
                tx.to = Some(eoa((sender_idx + 1) % n_eoa));
                tx.data = Bytes::new();
                tx.value = U256::from(1000u128 * ETHER) - U256::from(g.rng.below(2) * 50_000_000_000u64);
                tx.gas_limit = 21_000;
                tx.label.push_str("+drain");
            }
        }
    }
    // funding transfers to fresh senders (dependent validity in the other direction)
    if profile == Profile::Invalid || g.rng.chance(1, 6) {
        let k = g.rng.below(3);
        for tx in txs.iter_mut() {
            if tx.label == "transfer" && g.rng.chance(1, 2) {
                tx.to = Some(addr(0x9000 + k));
                tx.value = U256::from(ETHER);
                tx.label = "transfer-fund-fresh".into();
                break;
            }
        }
    }
    // nonce overflow corner
    if profile == Profile::Invalid && g.rng.chance(1, 12) && !txs.is_empty() {
        let a = addr(0x9100);
        pre_state.push(AccountSpec { address: a, balance: U256::from(10u128 * ETHER), nonce: u64::MAX, code: Bytes::new(), storage: vec![] });
        let i = g.rng.below(txs.len() as u64) as usize;
        let mut tx = base_tx(a, Some(eoa(0)), u64::MAX, spec, basefee, g.rng);
        tx.gas_limit = 30_000;
        tx.label = "nonce-overflow".into();
        txs.insert(i, tx);
    }

    let disable_nonce_check = g.rng.chance(1, 6);
    let concurrency = g.rng.range(1, opts.max_workers as u64) as usize;
    let n = txs.len();
    let mut scenario = Scenario {
        evm: EvmSpec { spec, chain_id: 1, disable_nonce_check },
        block: BlockSpec {
            number: *g.rng.pick(&[100u64, 100, 1000, 300]),
            beneficiary,
            timestamp: 1_700_000_000,
            gas_limit: 30_000_000,
            basefee,
            prevrandao: B256::from(U256::from(g.rng.next_u64())),
            difficulty: if spec >= SpecId::MERGE { U256::ZERO } else { U256::from(1000) },
            excess_blob_gas: 0,
        },
        pre_state,
        block_hashes: (90..100).map(|n| (n, B256::from(U256::from(0xb10c_0000u64 + n)))).collect(),
        txs,
        grevm: GrevmSpec {
            concurrency,
            min_parallel_txs: *g.rng.pick(&[0, 0, 0, 0, n, n + 1]),
            force_sequential: false,
            forbid_delegated_create: reserve_policy && g.rng.chance(1, 2),
            reserve_delegated_balance: reserve_policy && g.rng.chance(3, 4),
        },
        warm_cache: g.rng.chance(1, 4),
        bundle_update: true,
        faults: vec![],
        precompiles,
        callers: vec![vec![Entry::Execute]],
        second: None,
        later: vec![],
        profile: profile.name().into(),
    };
    blob_pass(seed, profile, spec, &mut scenario.block, &mut scenario.txs);
    scenario
}

/// Append a second block (executed on the state the first block leaves behind). Nonces continue from
/// the first block assuming every first-block transaction of a sender that can be valid is executed;
/// the reference decides what is actually valid.
pub fn add_second_block(s: &mut Scenario, seed: u64) {
    let (block2, txs) = sibling_block(s, seed, 0);
    s.second = Some((block2, txs));
}

/// One more consecutive block after `second` and the `later` blocks already there (C10 history
/// differential: account statuses and reverts across three and four merges on one state).
pub fn add_later_block(s: &mut Scenario, seed: u64) {
    let k = s.later.len() as u64 + 1;
    let b = sibling_block(s, seed, k);
    s.later.push(b);
}

fn sibling_block(s: &Scenario, seed: u64, k: u64) -> (crate::scenario::BlockSpec, Vec<TxSpec>) {
    let opts = GenOptions {
        profile: match s.profile.as_str() {
            "lifecycle" => Profile::Lifecycle,
            "code" => Profile::Code,
            "conflict" => Profile::Conflict,
            _ => Profile::Mixed,
        },
        max_txs: 4,
        max_workers: s.grevm.concurrency.max(1),
        two_blocks: false,
        specs: vec![s.evm.spec],
    };
    // Generate a sibling scenario over the same universe and borrow its transactions: contracts and
    // EOAs share addresses, so the second block hits the accounts and slots the first one touched.
    let sibling = generate(crate::prng::derive(seed, 0x2b10c + k), &opts);
    let mut txs = sibling.txs;
    // continue nonces per sender from the first block's expectation
    for tx in txs.iter_mut() {
        let earlier = s.txs.iter().chain(s.second.iter().flat_map(|(_, t)| t.iter())).chain(s.later.iter().flat_map(|(_, t)| t.iter()));
        let used = earlier.filter(|t| t.caller == tx.caller && !t.label.contains('+')).count() as u64;
        let base = s.pre_state.iter().find(|a| a.address == tx.caller).map_or(0, |a| a.nonce);
        let sib_base = sibling.pre_state.iter().find(|a| a.address == tx.caller).map_or(0, |a| a.nonce);
        tx.nonce = tx.nonce.saturating_sub(sib_base) + base + used;
        if tx.gas_price < s.block.basefee as u128 {
            tx.gas_price = s.block.basefee as u128 + 1;
            tx.priority_fee = tx.priority_fee.map(|_| 0);
        }
    }
    let mut block2 = s.block.clone();
    block2.number += 1 + k;
    block2.timestamp += 12 * (1 + k);
    (block2, txs)
}
