//! Structured scenario templates layered over the random generator: account life cycle (C08), code
//! changes incl. EIP-7702 (C09), custom precompiles (C11), delegated-balance reserve (C13).
//! A template appends contracts to the pre-state and returns a list of transaction *intents* that the
//! generator turns into transactions with in-order nonces.

use crate::evmasm::{self, CallKind, Expr, Stmt, add, addr_expr, imm, sload};
use crate::prng::Prng;
use crate::scenario::*;
use crate::workload::{ETHER, addr, contract, eoa, precompile_addr};
use revm_primitives::{Address, B256, Bytes, U256, hardfork::SpecId};

#[derive(Clone, Debug)]
pub struct Intent {
    pub sender: usize,
    pub to: Option<Address>,
    pub value: U256,
    pub data: Bytes,
    pub gas_limit: u64,
    /// (authority EOA index or None for an unrecoverable signature, target, nonce offset relative to
    /// the authority's in-order nonce, chain id)
    pub auths: Vec<(Option<usize>, Address, i64, u64)>,
    pub label: &'static str,
}

impl Intent {
    pub fn call(sender: usize, to: Address, words: &[u64], label: &'static str) -> Self {
        let mut v = Vec::new();
        for w in words {
            v.extend_from_slice(&U256::from(*w).to_be_bytes::<32>());
        }
        Self { sender, to: Some(to), value: U256::ZERO, data: Bytes::from(v), gas_limit: 600_000, auths: vec![], label }
    }
}

fn contract_account(address: Address, program: &[Stmt], storage: &[(u64, u64)], balance: u64) -> AccountSpec {
    AccountSpec {
        address,
        balance: U256::from(balance),
        nonce: 1,
        code: Bytes::from(evmasm::compile(program)),
        storage: storage.iter().map(|(k, v)| (U256::from(*k), U256::from(*v))).collect(),
    }
}

// ------------------------------------------------------------------------------------------------
// C08: life cycle
// ------------------------------------------------------------------------------------------------

pub fn lifecycle(rng: &mut Prng, spec: SpecId, n_eoa: usize, base: usize, pre_state: &mut Vec<AccountSpec>) -> Vec<Intent> {
    let d = contract(base); // destructible, has storage in the database
    let f = contract(base + 1); // CREATE2 factory
    let p = contract(base + 2); // prober
    let r = contract(base + 3); // calls then reverts
    let e = addr(0x9005); // existing empty account (EIP-161 target)
    let heir = eoa(rng.below(n_eoa as u64) as usize);

    // child, three variants. (1) counter in slot 0; selfdestructs unless calldata word 1 is odd (then it
    // reverts first). (2) never selfdestructs. (3) "moded": calldata word 0 selects the slot (0-3),
    // word 1 the mode - bit 2: read only, bit 0: revert after the write, bit 1: keep living after the
    // write, none: write then selfdestruct - so one block can write a slot, destroy the contract,
    // re-create it and write / read the same slot again without destroying it.
    let bit = |n: u64| Expr::And(Box::new(Expr::CallData(1)), Box::new(imm(n)));
    let key = || Expr::And(Box::new(Expr::CallData(0)), Box::new(imm(3)));
    let variant = rng.below(6);
    let moded = variant >= 3;
    let child_runtime = if moded {
        evmasm::compile(&[
            Stmt::Mix(sload(key())),
            Stmt::ReturnIf(bit(4)),
            Stmt::Sstore(key(), add(sload(key()), imm(1))),
            Stmt::RevertIf(bit(1)),
            Stmt::ReturnIf(bit(2)),
            Stmt::SelfDestruct(addr_expr(heir)),
        ])
    } else if variant >= 1 {
        evmasm::compile(&[
            Stmt::Mix(sload(imm(0))),
            Stmt::Sstore(imm(0), add(sload(imm(0)), imm(1))),
            Stmt::RevertIf(Expr::And(Box::new(Expr::CallData(1)), Box::new(imm(1)))),
            Stmt::SelfDestruct(addr_expr(heir)),
        ])
    } else {
        evmasm::compile(&[Stmt::Mix(sload(imm(0))), Stmt::Sstore(imm(0), add(sload(imm(0)), imm(1))), Stmt::Mix(sload(imm(1)))])
    };
    let ctor = vec![Stmt::Sstore(imm(0), imm(9)), Stmt::Sstore(imm(1), Expr::Timestamp)];
    // a fifth of the moded variants: the factory's init code self-destructs in its constructor, so every
    // factory call creates AND destroys the child address in one transaction - also when that address
    // already exists (pre-state child) or was destroyed earlier in the block (Destroyed -> DestroyedAgain)
    let ctor_destroys = moded && rng.chance(1, 5);
    let init = if ctor_destroys {
        let mut a = evmasm::Asm::default();
        a.stmt(&Stmt::Sstore(imm(0), imm(3)));
        a.stmt(&Stmt::SelfDestruct(addr_expr(heir)));
        a.code
    } else {
        evmasm::compile_init(&ctor, &child_runtime)
    };
    let salt = rng.below(2);
    let child = f.create2_from_code(B256::from(U256::from(salt)), &init);
    let child_create = f.create(1); // CREATE address for the factory's first plain CREATE

    pre_state.push(contract_account(
        d,
        &[Stmt::Mix(sload(imm(0))), Stmt::Mix(sload(imm(1))), Stmt::Sstore(imm(2), Expr::CallData(1)), Stmt::SelfDestruct(addr_expr(heir))],
        &[(0, 5), (1, 7), (2, 1)],
        1000,
    ));
    let factory_program = if spec >= SpecId::PETERSBURG && rng.chance(3, 4) {
        vec![Stmt::Create2 { init: init.clone(), value: imm(0), salt: imm(salt) }, Stmt::Mix(sload(imm(0)))]
    } else {
        vec![Stmt::Create { init: init.clone(), value: imm(0) }, Stmt::Mix(sload(imm(0)))]
    };
    let made = if matches!(factory_program[0], Stmt::Create2 { .. }) { child } else { child_create };
    pre_state.push(contract_account(f, &factory_program, &[(0, 1)], 5000));
    let mut probe = vec![
        Stmt::Mix(Expr::Balance(Box::new(addr_expr(made)))),
        Stmt::Mix(Expr::ExtCodeSize(Box::new(addr_expr(made)))),
        Stmt::ExtCodeCopyMix(addr_expr(made)),
        Stmt::Call { kind: CallKind::Call, to: addr_expr(made), value: imm(0), arg0: imm(0), arg1: Expr::CallData(1), gas: 200_000 },
        Stmt::Mix(Expr::Balance(Box::new(addr_expr(d)))),
        Stmt::Mix(Expr::ExtCodeSize(Box::new(addr_expr(d)))),
        Stmt::Mix(Expr::Balance(Box::new(addr_expr(e)))),
    ];
    if spec >= SpecId::PETERSBURG {
        probe.push(Stmt::Mix(Expr::ExtCodeHash(Box::new(addr_expr(made)))));
        probe.push(Stmt::Mix(Expr::ExtCodeHash(Box::new(addr_expr(d)))));
        probe.push(Stmt::Mix(Expr::ExtCodeHash(Box::new(addr_expr(e)))));
    }
    pre_state.push(contract_account(p, &probe, &[], 0));
    let revert_target = if rng.chance(1, 2) { d } else { made };
    let mut reverter = vec![Stmt::Call { kind: CallKind::Call, to: addr_expr(revert_target), value: imm(0), arg0: imm(0), arg1: imm(0), gas: 200_000 }];
    if spec >= SpecId::BYZANTIUM {
        reverter.push(Stmt::RevertIf(Expr::And(Box::new(Expr::CallData(1)), Box::new(imm(1)))));
    }
    pre_state.push(contract_account(r, &reverter, &[], 0));
    pre_state.push(AccountSpec { address: e, balance: U256::ZERO, nonce: 0, code: Bytes::new(), storage: vec![] });

    let s = |rng: &mut Prng| rng.below(n_eoa as u64) as usize;
    let mut pool: Vec<Intent> = vec![
        Intent::call(s(rng), f, &[0, 0], "factory-create"),
        Intent::call(s(rng), made, &[0, 0], "child-call-destroy"),
        Intent::call(s(rng), made, &[0, 1], "child-call-revert"),
        Intent::call(s(rng), f, &[0, 0], "factory-create-again"),
        Intent::call(s(rng), p, &[0, 0], "probe"),
        Intent::call(s(rng), p, &[0, 1], "probe-odd"),
        Intent::call(s(rng), d, &[0, 4], "destroy-existing"),
        Intent::call(s(rng), r, &[0, 1], "call-then-revert"),
        Intent::call(s(rng), r, &[0, 0], "call-no-revert"),
        Intent { sender: s(rng), to: Some(e), value: U256::ZERO, data: Bytes::new(), gas_limit: 30_000, auths: vec![], label: "touch-empty" },
        Intent { sender: s(rng), to: Some(made), value: U256::from(77), data: Bytes::new(), gas_limit: 100_000, auths: vec![], label: "fund-child-address" },
        Intent { sender: s(rng), to: Some(d), value: U256::from(5), data: Bytes::new(), gas_limit: 100_000, auths: vec![], label: "pay-destructible" },
    ];
    // create + destroy in one transaction: constructor selfdestructs
    let boom = {
        let mut a = evmasm::Asm::default();
        a.stmt(&Stmt::Sstore(imm(0), imm(3)));
        a.stmt(&Stmt::SelfDestruct(addr_expr(heir)));
        a.code
    };
    pool.push(Intent { sender: s(rng), to: None, value: U256::from(3), data: Bytes::from(boom), gas_limit: 300_000, auths: vec![], label: "create-and-destroy" });
    if moded {
        for slot in [0u64, 2, 3] {
            pool.push(Intent::call(s(rng), made, &[slot, 2], "child-write"));
            pool.push(Intent::call(s(rng), made, &[slot, 4], "child-read"));
        }
        pool.push(Intent::call(s(rng), made, &[2, 0], "child-write-destroy"));
    }
    if moded && (ctor_destroys || rng.chance(1, 2)) {
        // the child may already exist (with storage in the database) at the address the factory creates
        pre_state.push(AccountSpec {
            address: made,
            balance: U256::from(10),
            nonce: 1,
            code: Bytes::from(child_runtime.clone()),
            storage: vec![(U256::from(0), U256::from(4)), (U256::from(2), U256::from(6))],
        });
    }
    let n = rng.range(2, 7) as usize;
    let mut out = Vec::new();
    if moded && rng.chance(1, 2) {
        // storyline: (create) -> write slot k and destroy -> re-create -> write slot k -> read slot k, the
        // last two as separate transactions that race each other; other intents sprinkled in between
        let k = *rng.pick(&[2u64, 3, 2, 0]);
        let exists = pre_state.iter().any(|a| a.address == made);
        if !exists || rng.chance(1, 3) {
            out.push(Intent::call(s(rng), f, &[0, 0], "factory-create"));
        }
        if rng.chance(1, 3) {
            out.push(Intent::call(s(rng), made, &[k, 2], "child-write"));
        }
        out.push(Intent::call(s(rng), made, &[k, 0], "child-write-destroy"));
        out.push(Intent::call(s(rng), f, &[0, 0], "factory-create-again"));
        out.push(Intent::call(s(rng), made, &[k, 2], "child-write"));
        out.push(Intent::call(s(rng), made, &[k, if rng.chance(1, 2) { 4 } else { 2 }], "child-read"));
        for _ in 0..rng.below(3) {
            let at = rng.below(out.len() as u64 + 1) as usize;
            out.insert(at, rng.pick(&pool).clone());
        }
        return out;
    }
    for _ in 0..n {
        out.push(rng.pick(&pool).clone());
    }
    out
}

// ------------------------------------------------------------------------------------------------
// C09: code changes (EIP-7702 on Prague+, deployments before)
// ------------------------------------------------------------------------------------------------

pub fn code_7702(rng: &mut Prng, n_eoa: usize, base: usize, hot_slots: u64, pre_state: &mut Vec<AccountSpec>) -> Vec<Intent> {
    let t1 = contract(base);
    let t2 = contract(base + 1);
    let q = contract(base + 2);
    let hot = rng.below(hot_slots.max(1));
    pre_state.push(contract_account(
        t1,
        &[Stmt::Sstore(imm(hot), add(sload(imm(hot)), Expr::CallData(1))), Stmt::Mix(sload(imm(hot))), Stmt::Mix(Expr::SelfBalance), Stmt::Mix(Expr::This)],
        &[(hot, 1)],
        0,
    ));
    pre_state.push(contract_account(
        t2,
        &[
            Stmt::Mix(sload(imm(hot))),
            Stmt::Sstore(imm(1), add(sload(imm(1)), imm(1))),
            Stmt::Call { kind: CallKind::Call, to: addr_expr(eoa(0)), value: imm(1), arg0: imm(0), arg1: imm(0), gas: 50_000 },
            Stmt::Mix(Expr::This),
        ],
        &[],
        0,
    ));
    let authority = rng.below(n_eoa as u64) as usize;
    let a = eoa(authority);
    pre_state.push(contract_account(
        q,
        &[
            Stmt::Mix(Expr::ExtCodeSize(Box::new(addr_expr(a)))),
            Stmt::Mix(Expr::ExtCodeHash(Box::new(addr_expr(a)))),
            Stmt::ExtCodeCopyMix(addr_expr(a)),
            Stmt::Call { kind: CallKind::Call, to: addr_expr(a), value: imm(0), arg0: imm(0), arg1: Expr::CallData(1), gas: 200_000 },
            Stmt::Mix(Expr::Balance(Box::new(addr_expr(a)))),
        ],
        &[],
        0,
    ));
    // sometimes the authority starts the block already delegated
    if rng.chance(1, 3) {
        if let Some(acc) = pre_state.iter_mut().find(|x| x.address == a) {
            acc.code = Bytes::from(evmasm::delegation_code(if rng.chance(1, 2) { t1 } else { t2 }));
        }
    }
    let other = (authority + 1) % n_eoa;
    let rs: Vec<usize> = (0..16).map(|_| rng.below(n_eoa as u64) as usize).collect();
    let ts: Vec<Address> = (0..16).map(|_| eoa(rng.below(n_eoa as u64) as usize)).collect();
    let cs: Vec<u64> = (0..16).map(|_| if rng.chance(1, 2) { 0 } else { 1 }).collect();
    let auth_tx = |k: usize, sender: usize, auths: Vec<(Option<usize>, Address, i64, u64)>, label: &'static str| Intent {
        sender,
        to: Some(ts[k]),
        value: U256::ZERO,
        data: Bytes::new(),
        gas_limit: 400_000,
        auths,
        label,
    };
    let pool: Vec<Intent> = vec![
        auth_tx(0, rs[0], vec![(Some(authority), t1, 0, cs[0])], "7702-set-t1"),
        auth_tx(1, rs[1], vec![(Some(authority), t2, 0, cs[1])], "7702-set-t2"),
        auth_tx(2, rs[2], vec![(Some(authority), Address::ZERO, 0, 0)], "7702-clear"),
        auth_tx(3, rs[3], vec![(Some(authority), t1, 0, 0), (Some(authority), t2, 1, 1)], "7702-repeated-authority"),
        auth_tx(4, rs[4], vec![(Some(authority), t1, 0, 0), (Some(other), t2, 0, 0)], "7702-two-authorities"),
        auth_tx(5, rs[5], vec![(Some(authority), t2, 3, 0)], "7702-wrong-nonce"),
        // stale authority nonce: rejected in order (an earlier authorisation consumed it) but valid for
        // a speculative attempt that runs before that earlier transaction has published
        auth_tx(12, rs[12], vec![(Some(authority), t1, -1, 0)], "7702-stale-nonce-t1"),
        auth_tx(13, rs[13], vec![(Some(authority), t2, -1, cs[13])], "7702-stale-nonce-t2"),
        auth_tx(14, rs[14], vec![(Some(authority), Address::ZERO, -1, 0)], "7702-stale-nonce-clear"),
        auth_tx(6, rs[6], vec![(Some(authority), t2, 0, 5)], "7702-wrong-chain"),
        auth_tx(7, rs[7], vec![(None, t1, 0, 0), (Some(authority), t1, 0, 0)], "7702-invalid-signature-then-valid"),
        auth_tx(8, authority, vec![(Some(authority), t1, 0, 0)], "7702-self-sponsored"),
        // delegation to a stock precompile address (executes as empty code), to another delegated EOA
        // (no chain following: the designator itself is the code) and self-sponsored with a follow-up
        // transaction of the same sender
        auth_tx(15, rs[15], vec![(Some(authority), addr(*rng.pick(&[2u64, 4, 9])), 0, 0)], "7702-delegate-to-precompile"),
        auth_tx(15, rs[15], vec![(Some(authority), eoa(other), 0, 0), (Some(other), t1, 0, 0)], "7702-delegate-to-delegated"),
        auth_tx(8, authority, vec![(Some(authority), t2, 0, 1), (Some(authority), t1, 1, 0)], "7702-self-sponsored-twice"),
        Intent::call(rs[9], a, &[0, 2], "call-authority"),
        Intent::call(rs[10], a, &[0, 3], "call-authority-b"),
        Intent::call(rs[11], q, &[0, 1], "probe-authority"),
        Intent::call(authority, t1, &[0, 1], "tx-from-authority"),
        Intent { sender: authority, to: Some(eoa(other)), value: U256::from(9), data: Bytes::new(), gas_limit: 60_000, auths: vec![], label: "transfer-from-authority" },
    ];
    let n = rng.range(2, 7) as usize;
    if rng.chance(1, 5) {
        // storyline: a transaction of the authority, then SOMEBODY ELSE's transaction carrying the
        // authority's authorisation (which consumes the authority's next nonce), then the authority
        // again - once with the nonce that is right in order, or with the one the authorisation has just
        // consumed (skipped in order as too low, yet perfectly valid for whoever trusts a stale nonce)
        let third = (0..n_eoa).find(|i| *i != authority).unwrap_or(other);
        let mut out = vec![
            Intent::call(authority, t1, &[0, 1], "tx-from-authority"),
            auth_tx(0, third, vec![(Some(authority), if rng.chance(1, 2) { t1 } else { t2 }, 0, cs[0])], "7702-set-by-third-party"),
        ];
        let stale = rng.chance(1, 2);
        out.push(Intent {
            sender: authority,
            to: Some(eoa(other)),
            value: U256::from(9),
            data: Bytes::new(),
            gas_limit: 60_000,
            auths: vec![],
            label: if stale { "tx-from-authority-stale" } else { "transfer-from-authority" },
        });
        out.push(Intent::call(authority, t1, &[0, 2], "tx-from-authority"));
        for _ in 0..rng.below(3) {
            let at = rng.below(out.len() as u64 + 1) as usize;
            out.insert(at, rng.pick(&pool).clone());
        }
        return out;
    }
    (0..n).map(|_| rng.pick(&pool).clone()).collect()
}

// ------------------------------------------------------------------------------------------------
// C11: custom precompiles
// ------------------------------------------------------------------------------------------------

pub fn encode_cmd(op: u8, address: Address, key: u64, value: u64) -> Vec<u8> {
    let mut v = vec![op];
    v.extend_from_slice(address.as_slice());
    v.extend_from_slice(&U256::from(key).to_be_bytes::<32>());
    v.extend_from_slice(&U256::from(value).to_be_bytes::<32>());
    v
}

pub fn precompile_template(
    rng: &mut Prng,
    spec: SpecId,
    n_eoa: usize,
    n_contract: usize,
    base: usize,
    beneficiary: Address,
    pre_state: &mut Vec<AccountSpec>,
    precompiles: &mut Vec<PrecompileSpec>,
) -> Vec<Intent> {
    let bank = precompile_addr(0);
    let observer = precompile_addr(1);
    let mutator = precompile_addr(2);
    let ignorer = precompile_addr(3);
    let halter = precompile_addr(4);
    let fatal = precompile_addr(5);
    let remapper = precompile_addr(6);
    let holder = contract(0);
    precompiles.push(PrecompileSpec { address: bank, kind: PrecompileKind::Bank });
    precompiles.push(PrecompileSpec { address: observer, kind: PrecompileKind::Observer });
    precompiles.push(PrecompileSpec { address: mutator, kind: PrecompileKind::StaticMutator });
    precompiles.push(PrecompileSpec { address: ignorer, kind: PrecompileKind::FaultIgnorer });
    precompiles.push(PrecompileSpec { address: halter, kind: PrecompileKind::Halter });
    precompiles.push(PrecompileSpec { address: remapper, kind: PrecompileKind::FaultRemapper });
    let fatal_value = 40 + rng.below(3);
    if rng.chance(1, 3) {
        precompiles.push(PrecompileSpec {
            address: fatal,
            kind: PrecompileKind::FatalIf { addr: holder, slot: U256::from(0), value: U256::from(fatal_value) },
        });
    }
    let targets = [holder, contract(rng.below(n_contract as u64) as usize), eoa(0), eoa(rng.below(n_eoa as u64) as usize), beneficiary];
    let tgt = |rng: &mut Prng| targets[rng.below(targets.len() as u64) as usize];
    let cmd = |rng: &mut Prng| {
        let op = rng.below(5) as u8;
        let t = tgt(rng);
        encode_cmd(op, t, rng.below(3), if op == 2 { 1_000 + rng.below(5) } else { rng.below(50) })
    };
    // wrapper contracts
    let nested = contract(base);
    let static_caller = contract(base + 1);
    let reverting = contract(base + 2);
    let kinds = if spec >= SpecId::BYZANTIUM { vec![CallKind::Call, CallKind::Static, CallKind::Delegate, CallKind::CallCode] } else { vec![CallKind::Call, CallKind::CallCode] };
    let pc = |rng: &mut Prng| *rng.pick(&[bank, bank, observer, observer, mutator, ignorer, halter, remapper]);
    let mut nested_prog = Vec::new();
    for _ in 0..rng.range(1, 3) {
        nested_prog.push(Stmt::CallRaw { kind: *rng.pick(&kinds), to: addr_expr(pc(rng)), value: imm(if rng.chance(1, 4) { 1 + rng.below(3) } else { 0 }), data: cmd(rng), gas: 100_000 });
        nested_prog.push(Stmt::Mix(sload(imm(rng.below(2)))));
    }
    nested_prog.push(Stmt::Sstore(imm(0), add(sload(imm(0)), imm(1))));
    pre_state.push(contract_account(nested, &nested_prog, &[(0, 1)], 10_000));
    let static_prog = vec![
        Stmt::CallRaw { kind: if spec >= SpecId::BYZANTIUM { CallKind::Static } else { CallKind::Call }, to: addr_expr(mutator), value: imm(0), data: cmd(rng), gas: 100_000 },
        Stmt::CallRaw { kind: if spec >= SpecId::BYZANTIUM { CallKind::Static } else { CallKind::Call }, to: addr_expr(bank), value: imm(0), data: encode_cmd(3, holder, 0, 77), gas: 100_000 },
        Stmt::Mix(sload(imm(0))),
    ];
    pre_state.push(contract_account(static_caller, &static_prog, &[], 0));
    let mut reverting_prog = vec![Stmt::CallRaw { kind: CallKind::Call, to: addr_expr(bank), value: imm(0), data: encode_cmd(3, holder, 1, 99), gas: 100_000 }];
    if spec >= SpecId::BYZANTIUM {
        reverting_prog.push(Stmt::RevertIf(Expr::And(Box::new(Expr::CallData(1)), Box::new(imm(1)))));
    }
    pre_state.push(contract_account(reverting, &reverting_prog, &[], 0));

    let s = |rng: &mut Prng| rng.below(n_eoa as u64) as usize;
    let direct = |rng: &mut Prng, to: Address, label: &'static str| {
        let data = cmd(rng);
        Intent { sender: rng.below(n_eoa as u64) as usize, to: Some(to), value: U256::ZERO, data: Bytes::from(data), gas_limit: 300_000, auths: vec![], label }
    };
    let mut pool: Vec<Intent> = vec![
        direct(rng, bank, "precompile-direct-bank"),
        direct(rng, bank, "precompile-direct-bank"),
        direct(rng, observer, "precompile-direct-observer"),
        direct(rng, mutator, "precompile-direct-mutator"),
        direct(rng, ignorer, "precompile-direct-ignorer"),
        direct(rng, halter, "precompile-direct-halter"),
        direct(rng, remapper, "precompile-direct-remapper"),
        Intent::call(s(rng), nested, &[0, 1], "precompile-nested"),
        Intent::call(s(rng), static_caller, &[0, 0], "precompile-static"),
        Intent::call(s(rng), reverting, &[0, 1], "precompile-in-reverting-frame"),
        Intent::call(s(rng), reverting, &[0, 0], "precompile-in-frame"),
        Intent::call(s(rng), holder, &[0, fatal_value], "plain-call-holder"),
    ];
    if precompiles.iter().any(|p| p.address == fatal) {
        pool.push(Intent { sender: s(rng), to: Some(fatal), value: U256::ZERO, data: Bytes::new(), gas_limit: 200_000, auths: vec![], label: "precompile-fatal-if" });
        // a transaction that sets the trigger slot through the bank
        pool.push(Intent {
            sender: s(rng),
            to: Some(bank),
            value: U256::ZERO,
            data: Bytes::from(encode_cmd(3, holder, 0, fatal_value)),
            gas_limit: 200_000,
            auths: vec![],
            label: "precompile-arm-fatal",
        });
    }
    let n = rng.range(2, 7) as usize;
    (0..n).map(|_| rng.pick(&pool).clone()).collect()
}

// ------------------------------------------------------------------------------------------------
// C13: delegated-balance reserve
// ------------------------------------------------------------------------------------------------

pub struct ReservePlan {
    pub intents: Vec<Intent>,
    pub delegated: usize,
}

pub fn reserve_template(rng: &mut Prng, n_eoa: usize, base: usize, pre_state: &mut Vec<AccountSpec>) -> ReservePlan {
    let w = contract(base); // spender code run in the delegated account's context
    let sink = eoa((n_eoa - 1).max(0));
    let delegated = rng.below(n_eoa.max(2) as u64 - 1) as usize;
    // a second delegated account B (chain A -> B -> sink inside one transaction), when there is room
    let second: Option<usize> = (n_eoa >= 3).then(|| (0..n_eoa - 1).find(|i| *i != delegated).unwrap());
    let kind = if second.is_some() && rng.chance(1, 5) { 13 } else { rng.below(13) };
    let refunder = contract(base + 3); // sends whatever it receives straight back to its caller
    let donor = contract(base + 4); // pre-funded: pays calldata word 1 to its caller
    let call_v = |to: Expr, value: Expr| Stmt::Call { kind: CallKind::Call, to, value, arg0: imm(0), arg1: imm(0), gas: 80_000 };
    let program = match kind {
        // several surviving debits with credits in between / afterwards: the reserve is measured against
        // the balance before the FIRST debit and against the FINAL balance
        6 => vec![call_v(addr_expr(sink), Expr::CallData(1)), call_v(addr_expr(refunder), Expr::CallData(2)), Stmt::Mix(Expr::SelfBalance)],
        7 => vec![
            Stmt::Call { kind: CallKind::Call, to: addr_expr(donor), value: imm(1), arg0: imm(0), arg1: Expr::CallData(2), gas: 80_000 },
            call_v(addr_expr(sink), Expr::CallData(1)),
            Stmt::Mix(Expr::SelfBalance),
        ],
        8 => vec![call_v(addr_expr(refunder), Expr::CallData(1)), call_v(addr_expr(sink), Expr::CallData(2)), call_v(addr_expr(refunder), Expr::CallData(2))],
        9 => vec![call_v(addr_expr(sink), Expr::CallData(2)), Stmt::Mix(Expr::SelfBalance), Stmt::SelfDestruct(addr_expr(sink))],
        10 => {
            let runtime = evmasm::compile(&[Stmt::Mix(Expr::SelfBalance)]);
            vec![Stmt::Create { init: evmasm::compile_init(&[], &runtime), value: Expr::CallData(2) }, call_v(addr_expr(sink), Expr::CallData(1))]
        }
        // SELFDESTRUCT naming the account itself as heir moves nothing out of it (post-Cancun, not created
        // in this transaction); with and without an earlier real debit
        // pays another DELEGATED account, whose own delegate code forwards what it received: two
        // delegated accounts debited in one transaction, the second one credited before its first debit
        13 => vec![call_v(addr_expr(eoa(second.unwrap())), Expr::CallData(1)), Stmt::Mix(Expr::SelfBalance)],
        11 => vec![Stmt::Mix(Expr::SelfBalance), Stmt::SelfDestruct(Expr::This)],
        12 => vec![call_v(addr_expr(sink), Expr::CallData(1)), Stmt::SelfDestruct(Expr::This)],
        0 => vec![Stmt::Call { kind: CallKind::Call, to: addr_expr(sink), value: Expr::CallData(1), arg0: imm(0), arg1: imm(0), gas: 60_000 }, Stmt::Mix(Expr::SelfBalance)],
        1 => vec![
            // credit before debit, inner revert
            Stmt::Mix(Expr::SelfBalance),
            Stmt::Call { kind: CallKind::Call, to: addr_expr(sink), value: Expr::CallData(1), arg0: imm(0), arg1: imm(0), gas: 60_000 },
            Stmt::Call { kind: CallKind::Call, to: addr_expr(contract(base + 1)), value: imm(1), arg0: imm(0), arg1: imm(1), gas: 60_000 },
        ],
        2 => {
            let runtime = evmasm::compile(&[Stmt::Mix(Expr::SelfBalance)]);
            vec![Stmt::Create { init: evmasm::compile_init(&[], &runtime), value: Expr::CallData(1) }]
        }
        3 => vec![Stmt::Mix(Expr::SelfBalance), Stmt::SelfDestruct(addr_expr(sink))],
        // pays the immediate caller: with a call-back from the transaction's own target this debit
        // has the same source, amount and target as the transaction's top-level value transfer
        _ => vec![Stmt::Call { kind: CallKind::Call, to: Expr::Caller, value: Expr::CallData(1), arg0: imm(0), arg1: imm(0), gas: 60_000 }, Stmt::Mix(Expr::SelfBalance)],
    };
    pre_state.push(contract_account(w, &program, &[], 0));
    // helper that always reverts after receiving value
    pre_state.push(contract_account(contract(base + 1), &[Stmt::Mix(Expr::CallValue), Stmt::Revert], &[], 0));
    pre_state.push(contract_account(refunder, &[Stmt::Call { kind: CallKind::Call, to: Expr::Caller, value: Expr::CallValue, arg0: imm(0), arg1: imm(0), gas: 40_000 }], &[], 0));
    pre_state.push(contract_account(donor, &[Stmt::Call { kind: CallKind::Call, to: Expr::Caller, value: Expr::CallData(1), arg0: imm(0), arg1: imm(0), gas: 40_000 }], &[], 1_000_000_000));

    let a = eoa(delegated);
    // later own transactions of the delegated account: known maximum cost each
    let own = rng.range(0, 3) as usize;
    let gas_limit = 400_000u64;
    let max_fee = 40u128;
    let gas_limit = 400_000u64;
    let max_fee = 40u128; // the generator caps gas_price for these below
    // Unused gas of an own transaction is slack too, so interesting amounts live on the scale of one
    // transaction's maximum fee (gas_limit * max_fee): values just below / at / above it
    let fee_scale = gas_limit * max_fee as u64;
    let own_value = *rng.pick(&[1_000u64, fee_scale / 2, fee_scale - 1_000_000, fee_scale, fee_scale + 1_000_000, fee_scale + fee_scale / 4]);
    let required: u128 = own as u128 * (gas_limit as u128 * max_fee + own_value as u128);
    let slack = *rng.pick(&[0u64, 1, 500, 10_000]);
    let mut balance = required + slack as u128 + if rng.chance(1, 4) { ETHER } else { 0 };
    if rng.chance(1, 5) {
        // under-funded from the start: the reserve may never demand more than the account had before
        // the first debit
        balance = match rng.below(3) {
            0 => required.saturating_sub(1),
            1 => required * 3 / 4,
            _ => required / 2 + slack as u128,
        };
    }
    if let Some(acc) = pre_state.iter_mut().find(|x| x.address == a) {
        acc.code = Bytes::from(evmasm::delegation_code(w));
        acc.balance = U256::from(balance);
    }
    let s = |rng: &mut Prng| {
        let mut i = rng.below(n_eoa as u64) as usize;
        if i == delegated || (kind == 13 && Some(i) == second) {
            i = n_eoa - 1;
        }
        i
    };
    if kind == 13 {
        // B: delegated to a forwarder, poor (below / at / above the cost of its own later transaction)
        let b = second.unwrap();
        let fwd = contract(base + 5);
        pre_state.push(contract_account(fwd, &[call_v(addr_expr(sink), if rng.chance(1, 2) { Expr::CallValue } else { Expr::CallData(1) }), Stmt::Mix(Expr::SelfBalance)], &[], 0));
        let b_cost = gas_limit as u128 * max_fee + 1_000;
        let b_balance = match rng.below(4) {
            0 => b_cost / 2,
            1 => b_cost - 1,
            2 => b_cost,
            _ => b_cost + fee_scale as u128,
        };
        if let Some(acc) = pre_state.iter_mut().find(|x| x.address == eoa(b)) {
            acc.code = Bytes::from(evmasm::delegation_code(fwd));
            acc.balance = U256::from(b_balance);
        }
    }
    let amounts = [0u64, 1, slack, slack + 1, slack.saturating_sub(1), 499, 10_001, fee_scale / 2, fee_scale, fee_scale + 1_000_000, own_value];
    let mut intents = Vec::new();
    let n_calls = rng.range(1, 3) as usize;
    for _ in 0..n_calls {
        let mut intent = Intent::call(s(rng), a, &[0, *rng.pick(&amounts), *rng.pick(&amounts)], "call-delegated");
        if rng.chance(1, 4) {
            // long non-zero calldata: the EIP-7623 floor exceeds what the execution spends, so the floor
            // decides the charge (also for a forced revert)
            let mut data = intent.data.to_vec();
            data.extend(std::iter::repeat_n(0x5au8, *rng.pick(&[800usize, 2000, 4000])));
            intent.data = Bytes::from(data);
        }
        intents.push(intent);
    }
    if rng.chance(1, 2) {
        // a credit to the delegated account before / between the debits
        intents.push(Intent { sender: s(rng), to: Some(a), value: U256::from(*rng.pick(&amounts)), data: Bytes::from(vec![0u8; 64]), gas_limit: 200_000, auths: vec![], label: "credit-delegated" });
    }
    if rng.chance(1, 5) {
        // the delegation itself changes inside the block: cleared, re-pointed to the refunder (whose code
        // sends value back), or set for another account - carried by somebody else's transaction
        let sender = s(rng);
        let auth = match rng.below(3) {
            0 => (Some(delegated), Address::ZERO, 0i64, 0u64),
            1 => (Some(delegated), refunder, 0, 1),
            _ => (Some(sender), w, 0, 0),
        };
        let mut i = Intent::call(sender, a, &[0, *rng.pick(&amounts), *rng.pick(&amounts)], "call-delegated-with-auth");
        i.auths = vec![auth];
        intents.push(i);
    }
    rng.shuffle(&mut intents);
    // call-back contract: forwards its second calldata word to the delegated account's code
    let cb = contract(base + 2);
    pre_state.push(contract_account(
        cb,
        &[Stmt::Call { kind: CallKind::Call, to: addr_expr(a), value: imm(0), arg0: imm(0), arg1: Expr::CallData(1), gas: 150_000 }, Stmt::Mix(Expr::SelfBalance)],
        &[],
        0,
    ));
    for k in 0..own {
        let at = rng.below(intents.len() as u64 + 1) as usize;
        let via_callback = k + 1 < own && rng.chance(1, 2);
        let self_call = k + 1 < own && !via_callback && rng.chance(1, 2);
        let intent = if self_call {
            // the account calls ITSELF with value v (no balance moves at the top level) and its delegated
            // code pays out v, v+1 or v-1: the first inner debit looks exactly like the root transfer
            let pay = *rng.pick(&[own_value, own_value, own_value + 1, own_value.saturating_sub(1)]);
            let mut i = Intent::call(delegated, a, &[0, pay, pay], "own-tx-of-delegated");
            i.value = U256::from(own_value);
            i.gas_limit = gas_limit;
            i
        } else if via_callback {
            // own transaction with value v to the call-back contract, which re-enters the account's
            // delegated code with the amount v (or v +- 1)
            let back = *rng.pick(&[own_value, own_value, own_value + 1, own_value - 1, slack, 0]);
            let mut i = Intent::call(delegated, cb, &[0, back], "own-tx-of-delegated");
            i.value = U256::from(own_value);
            i.gas_limit = gas_limit;
            i
        } else {
            Intent { sender: delegated, to: Some(sink), value: U256::from(own_value), data: Bytes::new(), gas_limit, auths: vec![], label: "own-tx-of-delegated" }
        };
        intents.insert(at.max(1).min(intents.len()), intent);
    }
    if kind == 13 {
        // B's own later transaction (its maximum cost is what the reserve protects)
        let b = second.unwrap();
        let at = rng.range(1, intents.len() as u64) as usize;
        intents.insert(at.min(intents.len()), Intent { sender: b, to: Some(sink), value: U256::from(1_000u64), data: Bytes::new(), gas_limit, auths: vec![], label: "own-tx-of-delegated" });
    }
    ReservePlan { intents, delegated }
}


// ------------------------------------------------------------------------------------------------
// C01 / C02: conflict-dense template. One "universal" contract whose every call performs a direct
// read, a direct write, a pointer write and a pointer read, all with calldata-selected keys from a
// tiny domain. Data-dependent locations make write sets change between incarnations (withdrawn
// writes), reads resolve to writers that later move, and chains of re-executions are the norm.
// ------------------------------------------------------------------------------------------------

pub fn conflict_dense(rng: &mut Prng, n_eoa: usize, base: usize, max_txs: usize, probes: bool, pre_state: &mut Vec<AccountSpec>) -> Vec<Intent> {
    let u = contract(base);
    let and3 = |e: Expr| Expr::And(Box::new(e), Box::new(imm(3)));
    let program = vec![
        // direct read of key a
        Stmt::Mix(sload(Expr::CallData(0))),
        // pointer read: slot[base_r + (slot[p_r] & 3)]
        Stmt::Mix(sload(add(Expr::CallData(6), and3(sload(Expr::CallData(7)))))),
        // direct write: slot[b] = v (+ what was read, so values depend on reads)
        Stmt::Sstore(Expr::CallData(1), add(Expr::CallData(2), and3(Expr::Acc))),
        // pointer write: slot[base_w + (slot[p_w] & 3)] = w
        Stmt::Sstore(add(Expr::CallData(3), and3(sload(Expr::CallData(4)))), Expr::CallData(5)),
    ];
    let mut storage: Vec<(u64, u64)> = vec![(0, rng.below(4)), (1, rng.below(4)), (2, rng.below(4))];
    for k in 100..104 {
        storage.push((k, 1 + rng.below(5)));
    }
    pre_state.push(contract_account(u, &program, &storage, 0));
    let n = rng.range(3, max_txs.max(3) as u64) as usize;
    let mut out = Vec::new();
    for i in 0..n {
        let junk = 1000 + 10 * i as u64;
        let hot = |rng: &mut Prng| *rng.pick(&[0u64, 0, 1, 2]);
        let tgt = |rng: &mut Prng| 100 + rng.below(4);
        // each of the four operations is either aimed at the hot domain or parked on a private slot
        let a = match rng.below(4) { 0 => junk, 1 => tgt(rng), _ => hot(rng) };
        let b = match rng.below(4) { 0 | 1 => junk + 1, 2 => tgt(rng), _ => hot(rng) };
        let v = rng.below(4);
        let (base_w, p_w) = if rng.chance(1, 2) { (100, hot(rng)) } else { (junk + 2, junk + 3) };
        let w = 1 + rng.below(6);
        let (base_r, p_r) = if rng.chance(1, 2) { (100, hot(rng)) } else { (junk + 4, junk + 5) };
        out.push(Intent::call(rng.below(n_eoa as u64) as usize, u, &[a, b, v, base_w, p_w, w, base_r, p_r], "dense"));
    }
    if probes {
        // fee-recipient probes: the dense calls use data-dependent amounts of gas (value transitions of
        // the slots they write), so the reward an incarnation leaves behind differs between a stale and
        // the final incarnation; a probe reads BALANCE(COINBASE) - the fold of every preceding reward -
        // and stores it, so what it observed is part of its outcome and of the state
        let probe = contract(base + 1);
        let program = vec![Stmt::Mix(Expr::Balance(Box::new(Expr::Coinbase))), Stmt::Sstore(Expr::CallData(0), Expr::Acc)];
        pre_state.push(contract_account(probe, &program, &[], 0));
        for k in 0..rng.range(1, 2) {
            let at = rng.range(1, out.len() as u64) as usize;
            out.insert(at, Intent::call(rng.below(n_eoa as u64) as usize, probe, &[2000 + k], "coinbase-probe"));
        }
    }
    out
}


// ------------------------------------------------------------------------------------------------
// C01 / C02 / C07: reward-race template. One contract whose calls (mode selected by calldata word 0)
//   mode 0: write slot k = BALANCE(COINBASE) + c      (a writer that depends on every preceding reward:
//           blocked by the beneficiary history while a predecessor's entry is an estimate, its write
//           is then published as an estimate)
//   mode 1: branch on the parity of slot k: odd -> one more cold SLOAD (a different amount of gas,
//           hence a different reward, for a stale and a final incarnation), no write
//   mode 2: like mode 1, and additionally write slot k' (the write set does not change between
//           incarnations, so a retry issues no rewind)
//   mode 3: store BALANCE(COINBASE) into a private slot (a reader of the fold of all preceding rewards)
// interleaved with plain transfers whose senders may be slow to load. Every later transaction's
// observation of the fee recipient is exact only if every stale reward is kept out of the history.
// ------------------------------------------------------------------------------------------------

pub fn reward_race(rng: &mut Prng, n_eoa: usize, base: usize, max_txs: usize, pre_state: &mut Vec<AccountSpec>) -> Vec<Intent> {
    let k = contract(base);
    let odd = |e: Expr| Expr::And(Box::new(e), Box::new(imm(1)));
    // cd0 == m  <=>  cd0 + (2^256 - m) == 0
    let mode_is = |m: u64| Expr::IsZero(Box::new(add(Expr::CallData(0), Expr::Imm(U256::ZERO.wrapping_sub(U256::from(m))))));
    let program = vec![
        Stmt::If(mode_is(0), vec![Stmt::Sstore(Expr::CallData(1), add(Expr::Balance(Box::new(Expr::Coinbase)), Expr::CallData(2)))]),
        Stmt::If(mode_is(1), vec![Stmt::If(odd(sload(Expr::CallData(1))), vec![Stmt::Mix(sload(add(Expr::CallData(1), imm(7))))])]),
        Stmt::If(
            mode_is(2),
            vec![
                Stmt::If(odd(sload(Expr::CallData(1))), vec![Stmt::Mix(sload(add(Expr::CallData(1), imm(7))))]),
                Stmt::Sstore(Expr::CallData(2), imm(5)),
            ],
        ),
        Stmt::If(mode_is(3), vec![Stmt::Mix(Expr::Balance(Box::new(Expr::Coinbase))), Stmt::Sstore(Expr::CallData(1), Expr::Acc)]),
    ];
    let storage: Vec<(u64, u64)> = vec![(0, rng.below(4)), (1, rng.below(4)), (7, 3), (8, 4)];
    pre_state.push(contract_account(k, &program, &storage, 0));
    let n = rng.range(3, max_txs.max(3) as u64) as usize;
    let s = |rng: &mut Prng| rng.below(n_eoa as u64) as usize;
    let mut out: Vec<Intent> = Vec::new();
    // skeleton in order: (transfer)? writer, brancher, (brancher)?, probe; the rest is drawn freely
    let slot = rng.below(2);
    if rng.chance(2, 3) {
        out.push(Intent { sender: s(rng), to: Some(eoa(s(rng))), value: U256::from(1 + rng.below(9)), data: Bytes::new(), gas_limit: 30_000, auths: vec![], label: "transfer" });
    }
    out.push(Intent::call(s(rng), k, &[0, slot, rng.below(2)], "race-writer"));
    out.push(Intent::call(s(rng), k, &[1 + rng.below(2), slot, 20 + rng.below(2)], "race-brancher"));
    out.push(Intent::call(s(rng), k, &[3, 30 + rng.below(2)], "race-probe"));
    while out.len() < n {
        let at = rng.below(out.len() as u64 + 1) as usize;
        let intent = match rng.below(6) {
            0 => Intent { sender: s(rng), to: Some(eoa(s(rng))), value: U256::from(1 + rng.below(9)), data: Bytes::new(), gas_limit: 30_000, auths: vec![], label: "transfer" },
            1 => Intent::call(s(rng), k, &[0, rng.below(2), rng.below(2)], "race-writer"),
            2 | 3 => Intent::call(s(rng), k, &[1 + rng.below(2), rng.below(2), 20 + rng.below(2)], "race-brancher"),
            _ => Intent::call(s(rng), k, &[3, 30 + rng.below(2)], "race-probe"),
        };
        out.insert(at, intent);
    }
    out.truncate(max_txs.max(3));
    out
}
