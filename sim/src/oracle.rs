//! Pipeline oracle: reference run -> simulated run -> comparators. One function evaluates every
//! class of finding; each check listens to the classes that belong to its property.

use crate::compare::{diff_bundles, diff_outcomes};
use crate::monitor::Probes;
use crate::precompiles::{self, PrecompileLog};
use crate::reference::{self, RefBlock};
use crate::run::{self, CallOutcome, ErrKind, PanicKind, RunOptions, SimResult, Verdict};
use crate::scenario::{Entry, FaultAction, FaultMode, Scenario, SchedSpec};
use crate::simdb::{ReadKey, SimDb};
use crate::simsched::Trace;
use grevm::{ParallelTakeBundle, TxExecutionOutcome};
use revm::DatabaseRef;
use revm_database::states::bundle_state::BundleRetention;
use std::collections::BTreeSet;
use std::sync::Arc;

#[derive(Clone, Debug)]
pub struct Finding {
    pub property: &'static str,
    pub class: String,
    pub detail: String,
}

/// Bundle extraction from the state a run returned. revm's bundle code is full of `unreachable!` arms for
/// transition sequences a correct cache never produces; hitting one is a verdict about the state (C10: the
/// transitions must equal those of revm's State, which extracts the same history without panicking in the
/// reference run of the same case), not a harness crash.
pub fn take_bundle_checked<DB: revm::DatabaseRef>(
    state: &mut grevm::ParallelState<DB>,
    retention: BundleRetention,
    findings: &mut Vec<Finding>,
) -> revm_database::BundleState {
    match std::panic::catch_unwind(std::panic::AssertUnwindSafe(|| state.parallel_take_bundle(retention))) {
        Ok(bundle) => bundle,
        Err(payload) => {
            let msg = payload.downcast_ref::<String>().cloned().or_else(|| payload.downcast_ref::<&str>().map(|m| m.to_string())).unwrap_or_else(|| "non-string panic payload".into());
            findings.push(finding("C10", "bundle.extraction_panic", format!("parallel_take_bundle panicked: {}", msg.chars().take(240).collect::<String>())));
            revm_database::BundleState::default()
        }
    }
}

fn finding(property: &'static str, class: &str, detail: String) -> Finding {
    Finding { property, class: class.to_string(), detail }
}

#[derive(Clone, Debug, Default)]
pub struct CaseStats {
    pub decisions: u64,
    pub steps: u64,
    pub context_switches: u64,
    pub preemptions: u64,
    pub fair_phase_entered: bool,
    pub fair_decisions: u64,
    pub spurious_wakes: u64,
    pub starve_applied: u64,
    pub pauses_applied: u64,
    pub probes: Probes,
    pub rt_faults: [u64; 16],
    pub db_calls: u64,
    pub db_latency_points: u64,
    pub db_errors_persistent: u64,
    pub db_errors_once: u64,
    pub db_errors_nth: u64,
    pub db_panics: u64,
    pub precompile_calls: u64,
    pub precompile_fatals: u64,
    pub precompile_panics: u64,
    pub precompile_ignored_faults: u64,
    pub trace_hash: u64,
    pub behaviour: u64,
    pub nontrivial: bool,
    pub completed: bool,
    pub reference_error: bool,
    pub call_error: bool,
    pub call_panic: bool,
    pub txs: usize,
    pub workers: usize,
    pub readback_keys: u64,
    pub unknown_code_requests: u64,
    /// workload reach probes measured on the reference run (name, count)
    pub workload: Vec<(&'static str, u64)>,
}

pub struct CaseOutput {
    pub findings: Vec<Finding>,
    pub stats: CaseStats,
    pub trace: Option<Trace>,
    pub summary: String,
}

#[derive(Clone, Debug, PartialEq, Eq)]
pub enum FaultClass {
    None,
    /// only persistent error rules: the reference runs on the same faulty database
    PersistentErrors,
    /// fail-once / fail-nth errors: narrow relaxation (full result or exact prefix)
    TransientErrors,
    /// some rule panics
    Panics,
}

pub fn fault_class(s: &Scenario) -> FaultClass {
    if s.faults.is_empty() {
        return FaultClass::None;
    }
    if s.faults.iter().any(|f| f.action == FaultAction::Panic) {
        return FaultClass::Panics;
    }
    if s.faults.iter().all(|f| f.mode == FaultMode::Persistent && f.roles == 0) {
        FaultClass::PersistentErrors
    } else {
        FaultClass::TransientErrors
    }
}

fn fnv64(h: &mut u64, v: u64) {
    *h ^= v;
    *h = h.wrapping_mul(0x0000_0100_0000_01b3);
}

/// What the generated block actually exercised, measured on the in-order reference.
fn workload_reach(block: &RefBlock, bundle: &revm_database::BundleState, pl: &PrecompileLog) -> Vec<(&'static str, u64)> {
    use revm_context::result::ExecutionResult;
    use revm_database::AccountStatus;
    let mut v: Vec<(&'static str, u64)> = Vec::new();
    let mut add = |k: &'static str, n: u64| {
        if n > 0 {
            v.push((k, n));
        }
    };
    let mut success = 0;
    let mut revert = 0;
    let mut halt = 0;
    let mut skipped = 0;
    let mut created = 0;
    let mut logs = 0;
    for st in &block.steps {
        match &st.outcome {
            TxExecutionOutcome::Executed(ExecutionResult::Success { logs: l, output, .. }) => {
                success += 1;
                logs += l.len() as u64;
                if matches!(output, revm_context::result::Output::Create(..)) {
                    created += 1;
                }
            }
            TxExecutionOutcome::Executed(ExecutionResult::Revert { .. }) => revert += 1,
            TxExecutionOutcome::Executed(ExecutionResult::Halt { .. }) => halt += 1,
            TxExecutionOutcome::Skipped(_) => skipped += 1,
        }
    }
    add("workload.tx_success", success);
    add("workload.tx_revert", revert);
    add("workload.tx_halt", halt);
    add("workload.tx_skipped_invalid", skipped);
    add("workload.tx_create_success", created);
    add("workload.logs", logs);
    add("workload.reference_fatal_error", block.error.is_some() as u64);
    let mut destroyed = 0;
    let mut destroyed_changed = 0;
    let mut destroyed_again = 0;
    let mut in_memory = 0;
    let mut delegations = 0;
    let mut storage_changes = 0;
    for acc in bundle.state.values() {
        match acc.status {
            AccountStatus::Destroyed => destroyed += 1,
            AccountStatus::DestroyedChanged => destroyed_changed += 1,
            AccountStatus::DestroyedAgain => destroyed_again += 1,
            AccountStatus::InMemoryChange => in_memory += 1,
            _ => {}
        }
        if let Some(info) = &acc.info &&
            let Some(code) = &info.code &&
            code.is_eip7702()
        {
            delegations += 1;
        }
        storage_changes += acc.storage.len() as u64;
    }
    add("workload.account_destroyed", destroyed);
    add("workload.account_destroyed_changed", destroyed_changed);
    add("workload.account_destroyed_again", destroyed_again);
    add("workload.account_created_in_memory", in_memory);
    add("workload.account_with_delegation_after_block", delegations);
    add("workload.new_contracts", bundle.contracts.len() as u64);
    add("workload.storage_slots_changed", storage_changes);
    add("workload.precompile_calls_in_reference", pl.calls.load(std::sync::atomic::Ordering::Relaxed));
    add("workload.precompile_static_mutation_refused", pl.static_mutations_refused.load(std::sync::atomic::Ordering::Relaxed));
    add("workload.precompile_halts", pl.halts.load(std::sync::atomic::Ordering::Relaxed));
    v
}

fn outcomes_of(block: &RefBlock) -> Vec<TxExecutionOutcome> {
    block.steps.iter().map(|s| s.outcome.clone()).collect()
}

/// Does the parallel path run for this scenario's first block (as opposed to the configured
/// sequential path)?
pub fn takes_parallel_path(s: &Scenario, entry: &Entry) -> bool {
    match entry {
        Entry::FallbackSequential => false,
        _ => !(s.grevm.force_sequential || s.txs.len() < s.grevm.min_parallel_txs),
    }
}

pub struct PipelineWant {
    pub record_trace: bool,
    /// read back every key the reference touched through the returned ParallelState (C10c)
    pub readback: bool,
    /// retention used for bundle extraction
    pub plain_state: bool,
}

impl PipelineWant {
    pub fn retention(&self) -> BundleRetention {
        if self.plain_state { BundleRetention::PlainState } else { BundleRetention::Reverts }
    }
}

impl Default for PipelineWant {
    fn default() -> Self {
        Self { record_trace: false, readback: true, plain_state: false }
    }
}

/// Run reference + simulation for one scenario and evaluate every oracle.
pub fn run_pipeline_case(
    scenario: &Arc<Scenario>,
    sched: &SchedSpec,
    replay: Option<Trace>,
    want: &PipelineWant,
) -> CaseOutput {
    run::reset_hash_seeds(sched.seed);
    let s: &Scenario = scenario;
    let fclass = fault_class(s);
    // The delegated-safety policies are inert before Prague (stock revm stays the reference). With the
    // reserve policy alone the reference is the independent rule model (reservemodel.rs); with the
    // CREATE guard on there is no reference for data (path agreement decides, see run_relation_case).
    let prague = s.evm.spec >= revm_primitives::hardfork::SpecId::PRAGUE;
    let guard_on = s.grevm.forbid_delegated_create && prague;
    let reserve_on = s.grevm.reserve_delegated_balance && prague;
    let reserve_model = reserve_on || guard_on;
    let precompile_log_ref = Arc::new(PrecompileLog::default());
    let pcs_ref = precompiles::build(&s.precompiles, &precompile_log_ref);
    let model_stats = std::cell::RefCell::new((0u64, 0u64, false, 0u64));
    let run_ref = |state: &mut reference::RefState<'_>, block: &crate::scenario::BlockSpec, txs: &[crate::scenario::TxSpec], count: bool| -> RefBlock {
        if reserve_model {
            let r = crate::reservemodel::run_reserve_model_block(state, &s.evm, block, txs, &pcs_ref, true, reserve_on, guard_on);
            let mut m = model_stats.borrow_mut();
            if count {
                m.0 += r.violations.len() as u64;
                m.1 += r.debit_txs;
                m.3 += r.guard_halts;
            }
            m.2 |= r.undecided;
            r.block
        } else {
            reference::run_reference_block(state, &s.evm, block, txs, &pcs_ref, true)
        }
    };

    // ---------------- reference (outside the simulator, fresh database instance)
    // The main reference is always fault-free: data (outcomes, deltas, bundle) is right iff it equals
    // fault-free in-order execution. Persistent faults get a second reference on the same faulty
    // database, which decides the expected error, failing index and prefix.
    let ref_db = SimDb::from_scenario(s, false, true);
    let mut ref_state = reference::new_ref_state(&ref_db, s.bundle_update);
    let first_entry = s.callers.first().and_then(|c| c.first()).cloned().unwrap_or(Entry::Execute);
    // Both paths load the fee recipient up front (the property text of C04 defines that as the
    // reference; the sequential path does so since the C06 fix).
    let _ = &first_entry;
    let ref_first = run_ref(&mut ref_state, &s.block, &s.txs, true);
    let mut ref_second = None;
    if ref_first.error.is_none() &&
        let Some((block2, txs2)) = &s.second
    {
        ref_state.merge_transitions(BundleRetention::Reverts);
        ref_second = Some(run_ref(&mut ref_state, block2, txs2, true));
    }
    let ref_bundle = reference::take_ref_bundle(&mut ref_state, want.retention());
    let mut workload_probes = workload_reach(&ref_first, &ref_bundle, &precompile_log_ref);
    let blobs = s.txs.iter().filter(|t| t.tx_type == 3).count() as u64;
    if blobs > 0 {
        workload_probes.push(("probe.blob_transactions", blobs));
        let malformed = s.txs.iter().filter(|t| t.tx_type == 3 && t.label.contains('+')).count() as u64;
        if malformed > 0 {
            workload_probes.push(("probe.blob_transactions_malformed", malformed));
        }
    }
    if s.txs.len() > 8 {
        workload_probes.push(("probe.large_block_cases", 1));
        workload_probes.push(("probe.large_block_transactions", s.txs.len() as u64));
    }
    let faulty = (fclass == FaultClass::PersistentErrors).then(|| {
        let db_f = SimDb::from_scenario(s, true, false);
        let mut st_f = reference::new_ref_state(&db_f, s.bundle_update);
        let block_f = run_ref(&mut st_f, &s.block, &s.txs, false);
        let bundle_f = reference::take_ref_bundle(&mut st_f, want.retention());
        (block_f, bundle_f)
    });
    // no reference for data: CREATE guard on, or a block the rule model cannot decide
    let policy_on = reserve_model && model_stats.borrow().2;
    if reserve_model {
        let m = model_stats.borrow();
        workload_probes.push(("probe.reserve_model_blocks", 1));
        if m.0 > 0 {
            workload_probes.push(("probe.reserve_model_charged_reverts", m.0));
        }
        if m.1 > 0 {
            workload_probes.push(("probe.reserve_model_txs_with_delegated_debits", m.1));
        }
        if m.2 {
            workload_probes.push(("probe.reserve_model_undecided_blocks", 1));
        }
        if guard_on {
            workload_probes.push(("probe.guard_model_blocks", 1));
        }
        if m.3 > 0 {
            workload_probes.push(("probe.guard_model_halted_frames", m.3));
        }
    }
    let expected_first = Arc::new(ref_first.steps.clone());
    let expected_second = ref_second.as_ref().map(|b| Arc::new(b.steps.clone()));

    // ---------------- simulated run
    let opts = RunOptions {
        record_trace: want.record_trace,
        record_log: std::env::var_os("VERIF_LOG").is_some(),
        // With delegated-safety policies on, stock revm is not a reference for per-commit deltas.
        expected_first: (!policy_on).then(|| expected_first.clone()),
        expected_second: if policy_on { None } else { expected_second.clone() },
    };
    let SimResult { verdict, sched: sched_out, monitor, steps, trace_hash, fault_counts, log, .. } =
        run::run_sim(scenario, sched, replay, &opts);
    if let Some(log) = &log {
        for (i, (task, site)) in log.iter().enumerate() {
            eprintln!("LOG {i} task={task} site={site:08x}");
        }
    }

    let mut findings = Vec::new();
    let mut stats = CaseStats {
        decisions: sched_out.decisions,
        steps,
        context_switches: sched_out.context_switches,
        preemptions: sched_out.preemptions,
        fair_phase_entered: sched_out.fair_phase_entered,
        fair_decisions: sched_out.fair_decisions,
        spurious_wakes: sched_out.spurious_wakes,
        starve_applied: sched_out.starve_applied,
        pauses_applied: sched_out.pauses_applied,
        probes: monitor.probes.clone(),
        rt_faults: fault_counts,
        trace_hash,
        reference_error: ref_first.error.is_some() || faulty.as_ref().is_some_and(|(b, _)| b.error.is_some()),
        txs: s.txs.len(),
        workers: s.grevm.concurrency,
        workload: workload_probes,
        ..CaseStats::default()
    };

    // behaviour abstraction: multiset of (txid, #incarnations, #validations), abort kinds, fallback start
    let mut behaviour = 0xcbf2_9ce4_8422_2325u64;
    for (i, n) in monitor.incarnations.iter().enumerate() {
        fnv64(&mut behaviour, (i as u64) << 32 | (*n as u64) << 8 | monitor.validations_per_tx.get(i).copied().unwrap_or(0) as u64);
    }
    fnv64(&mut behaviour, monitor.fallback_start.map_or(0xff, |x| x as u64));
    fnv64(&mut behaviour, monitor.probes.abort_fatal << 3 | monitor.probes.abort_commit_error << 2 | monitor.probes.abort_parallel_error << 1 | monitor.probes.abort_fallback);
    fnv64(&mut behaviour, monitor.probes.commits);

    for v in &monitor.violations {
        findings.push(finding(v.property, v.class, v.detail.clone()));
    }
    if monitor.probes.abort_parallel_error > 0 && fclass != FaultClass::Panics {
        // A scheduler-invariant abort is recovered by sequential replay, but it should never happen.
        findings.push(finding("C01", "parallel_error_abort", "scheduler aborted with a ParallelError (internal inconsistency)".into()));
    }

    let mut summary = String::new();
    match verdict {
        Verdict::Deadlock(msg) => {
            fnv64(&mut behaviour, 0xdead);
            findings.push(finding("C05", "deadlock", format!("no runnable task while some are unfinished: {msg}")));
            summary = "deadlock".into();
        }
        Verdict::StepBound => {
            fnv64(&mut behaviour, 0x57e9);
            findings.push(finding(
                "C05",
                "livelock",
                format!("execution did not finish within the fair phase ({} + {} decisions)", sched.n1, sched.n2),
            ));
            summary = "step bound".into();
        }
        Verdict::HarnessError(msg) => {
            findings.push(finding("HARNESS", "harness_error", msg.clone()));
            summary = format!("harness error: {msg}");
        }
        Verdict::CustomCompleted => {
            findings.push(finding("HARNESS", "harness_error", "component result in a pipeline case".into()));
        }
        Verdict::Completed(out) => {
            stats.completed = true;
            let mut out = *out;
            let db = Arc::clone(&out.db);
            stats.db_calls = db.stats.calls.load(std::sync::atomic::Ordering::Relaxed);
            stats.db_latency_points = db.stats.latency_points.load(std::sync::atomic::Ordering::Relaxed);
            stats.db_errors_persistent = db.stats.errors_persistent.load(std::sync::atomic::Ordering::Relaxed);
            stats.db_errors_once = db.stats.errors_once.load(std::sync::atomic::Ordering::Relaxed);
            stats.db_errors_nth = db.stats.errors_nth.load(std::sync::atomic::Ordering::Relaxed);
            stats.db_panics = db.stats.panics.load(std::sync::atomic::Ordering::Relaxed);
            stats.unknown_code_requests = db.stats.unknown_code_requests.load(std::sync::atomic::Ordering::Relaxed);
            let pl = &out.precompile_log;
            stats.precompile_calls = pl.calls.load(std::sync::atomic::Ordering::Relaxed);
            stats.precompile_fatals = pl.fatals.load(std::sync::atomic::Ordering::Relaxed);
            stats.precompile_panics = pl.panics.load(std::sync::atomic::Ordering::Relaxed);
            stats.precompile_ignored_faults = pl.ignored_faults.load(std::sync::atomic::Ordering::Relaxed);

            // ---- entry-point results (single caller: exactly one call; C14 handles multi-caller)
            let calls = &out.first.calls;
            let main_call = calls.iter().find(|c| !matches!(&c.outcome, CallOutcome::Err { kind: ErrKind::OnlyOnce, .. }));
            // C14: among all concurrent / successive entry-point calls exactly one runs the block
            let total_calls: usize = s.callers.iter().map(|c| c.len()).sum();
            if total_calls > 1 {
                let winners = calls.iter().filter(|c| !matches!(&c.outcome, CallOutcome::Err { kind: ErrKind::OnlyOnce, .. })).count();
                if calls.len() != total_calls {
                    findings.push(finding("C14", "calls_lost", format!("{} of {total_calls} entry-point calls returned", calls.len())));
                }
                if winners != 1 {
                    findings.push(finding(
                        "C14",
                        "winner_count",
                        format!(
                            "{winners} of {} entry-point calls ran the block: {:?}",
                            calls.len(),
                            calls.iter().map(|c| format!("caller{} {:?} -> {}", c.caller, c.entry, summarise_call(Some(c)))).collect::<Vec<_>>()
                        ),
                    ));
                }
                for c in calls.iter() {
                    if let CallOutcome::Err { kind: ErrKind::OnlyOnce, txid, .. } = &c.outcome &&
                        *txid >= s.txs.len().max(1)
                    {
                        findings.push(finding("C14", "rejected_call_txid", format!("rejected call reports txid {txid} for a block of {}", s.txs.len())));
                    }
                }
            }
            let bundle = take_bundle_checked(&mut out.first.state, want.retention(), &mut findings);
            let actual_outcomes = &out.first.outcomes;
            summary = format!(
                "calls={:?} outcomes={} reexec={} valconf={} fallback={:?}",
                calls.iter().map(|c| match &c.outcome {
                    CallOutcome::Ok => "Ok".to_string(),
                    CallOutcome::Err { txid, kind, .. } => format!("Err({txid},{kind:?})"),
                    CallOutcome::Panic(k) => format!("Panic({k:?})"),
                }).collect::<Vec<_>>(),
                actual_outcomes.len(),
                monitor.probes.reexecutions,
                monitor.probes.validation_conflicts,
                monitor.fallback_start
            );
            let second_expected = s.second.is_some();
            match main_call.map(|c| &c.outcome) {
                None => findings.push(finding("C14", "no_winner", "every entry-point call was rejected".into())),
                Some(CallOutcome::Panic(kind)) => {
                    stats.call_panic = true;
                    let expected_panic = match kind {
                        PanicKind::Injected(_) => fclass == FaultClass::Panics,
                        PanicKind::InjectedPrecompile => true,
                        PanicKind::Other(_) => false,
                    };
                    if !expected_panic {
                        findings.push(finding("C05", "unexpected_panic", format!("entry point panicked: {kind:?}")));
                    }
                }
                Some(CallOutcome::Ok) => {
                    // Ok (also when a fault was absorbed by a cache): the data must equal fault-free
                    // in-order execution.
                    let (p_out, c_out, c_bundle) = match fclass {
                        FaultClass::None | FaultClass::PersistentErrors => ("C01", "outcomes", "bundle"),
                        _ => ("C04", "transient.outcomes", "transient.bundle"),
                    };
                    if let Some((k, e)) = &ref_first.error {
                        findings.push(finding(
                            "C04",
                            "error_not_reported",
                            format!("execute() returned Ok but in-order execution fails at tx {k} with {e:?}"),
                        ));
                    } else if !policy_on {
                        if let Some(d) = diff_outcomes(actual_outcomes, &outcomes_of(&ref_first)) {
                            let skipped = d.contains("Skipped");
                            findings.push(finding(if skipped && p_out == "C01" { "C03" } else { p_out }, c_out, d));
                        } else if !second_expected && let Some(d) = diff_bundles(&bundle, &ref_bundle) {
                            if std::env::var_os("VERIF_DEBUG").is_some() {
                                eprintln!("ACTUAL BUNDLE: {bundle:#?}\nEXPECTED BUNDLE: {ref_bundle:#?}");
                            }
                            findings.push(finding(p_out, c_bundle, d));
                        }
                    }
                }
                Some(CallOutcome::Err { txid, error, kind }) => {
                    stats.call_error = true;
                    let k = *txid;
                    // bundle of exactly k fault-free in-order transactions
                    let prefix_bundle = |k: usize| {
                        let db_k = SimDb::from_scenario(s, false, false);
                        let mut st_k = reference::new_ref_state(&db_k, s.bundle_update);
                        let _ = run_ref(&mut st_k, &s.block, &s.txs[..k.min(s.txs.len())], false);
                        reference::take_ref_bundle(&mut st_k, want.retention())
                    };
                    let clean_exp = outcomes_of(&ref_first);
                    // which reference failure (if any) does this error reproduce?
                    let matches_ref = |r: &Option<(usize, revm_context::result::EVMError<crate::simdb::SimDbError>)>| {
                        // revm's `State` (the reference's database stack) wraps the database error in
                        // `EvmDatabaseError`, whose Display adds a "Database error: " prefix where a
                        // precompile facade renders the error as text; the wrapper is not Grevm's.
                        r.as_ref().is_some_and(|(rk, re)| {
                            *rk == k && format!("{re:?}").replace("Database error: ", "") == error.replace("Database error: ", "")
                        })
                    };
                    match fclass {
                        FaultClass::None | FaultClass::PersistentErrors => {
                            let faulty_err = faulty.as_ref().and_then(|(b, _)| b.error.clone());
                            let genuine = matches_ref(&ref_first.error) || matches_ref(&faulty_err);
                            // An earlier faulty read may have been absorbed by Grevm's committed cache
                            // (it caches created contracts; revm's State does not): a database error on
                            // a faulty key at a LATER index is then still faithful.
                            let names_faulty_key = s.faults.iter().any(|f| error.contains(&format!("{:?}", f.key)));
                            let later_faulty_key = !genuine &&
                                *kind == ErrKind::Database &&
                                names_faulty_key &&
                                faulty_err.as_ref().is_some_and(|(rk, _)| k >= *rk) &&
                                ref_first.error.is_none();
                            if !genuine && !later_faulty_key {
                                let class = if ref_first.error.is_none() && faulty_err.is_none() { "spurious_error" } else { "wrong_error" };
                                findings.push(finding(
                                    "C04",
                                    class,
                                    format!(
                                        "execute() error (tx {k}, {error}) but in-order execution: fault-free {:?}, on the faulty database {:?}",
                                        ref_first.error.as_ref().map(|(i, e)| (i, format!("{e:?}"))),
                                        faulty_err.as_ref().map(|(i, e)| (i, format!("{e:?}")))
                                    ),
                                ));
                            }
                            if actual_outcomes.len() != k {
                                findings.push(finding(
                                    "C04",
                                    "error.prefix_len",
                                    format!("{} outcomes returned with error at tx {k}", actual_outcomes.len()),
                                ));
                            } else if k <= clean_exp.len() {
                                if let Some(d) = diff_outcomes(actual_outcomes, &clean_exp[..k]) {
                                    findings.push(finding("C04", "error.prefix_outcomes", d));
                                } else if !policy_on && let Some(d) = diff_bundles(&bundle, &prefix_bundle(k)) {
                                    findings.push(finding("C04", "error.prefix_bundle", d));
                                }
                            } else {
                                findings.push(finding("C04", "error.prefix_len", format!("error at tx {k} beyond the in-order failure point")));
                            }
                        }
                        FaultClass::TransientErrors | FaultClass::Panics => {
                            // reported: a database error (or the genuine fault-free failure) with an
                            // exact k-prefix of the fault-free run
                            let db_fault = *kind == ErrKind::Database || error.contains("simulated database fault");
                            if !db_fault && !matches_ref(&ref_first.error) {
                                findings.push(finding("C04", "transient.wrong_error_kind", format!("tx {k}: {error}")));
                            }
                            if actual_outcomes.len() != k {
                                findings.push(finding(
                                    "C04",
                                    "transient.prefix_len",
                                    format!("{} outcomes returned with error at tx {k}", actual_outcomes.len()),
                                ));
                            } else if k <= clean_exp.len() {
                                if let Some(d) = diff_outcomes(actual_outcomes, &clean_exp[..k]) {
                                    findings.push(finding("C04", "transient.prefix_outcomes", d));
                                } else if !policy_on && let Some(d) = diff_bundles(&bundle, &prefix_bundle(k)) {
                                    findings.push(finding("C04", "transient.prefix_bundle", d));
                                }
                            } else {
                                findings.push(finding("C04", "transient.prefix_len", format!("error at tx {k} beyond the in-order failure point")));
                            }
                        }
                    }
                }
            }

            // ---- second block
            if let (Some((calls2, outcomes2)), Some(ref2)) = (&out.second, &ref_second) &&
                fclass == FaultClass::None &&
                !policy_on
            {
                match calls2.first().map(|c| &c.outcome) {
                    Some(CallOutcome::Ok) if ref2.error.is_none() => {
                        if let Some(d) = diff_outcomes(outcomes2, &outcomes_of(ref2)) {
                            findings.push(finding("C10", "second_block.outcomes", d));
                        } else if let Some(d) = diff_bundles(&bundle, &ref_bundle) {
                            findings.push(finding("C10", "second_block.bundle", d));
                        }
                    }
                    other => {
                        if ref2.error.is_none() {
                            findings.push(finding("C10", "second_block.result", format!("second block returned {other:?}")));
                        }
                    }
                }
            }

            // ---- C10(c): read back everything the reference touched through the returned state
            let clean_ok = matches!(main_call.map(|c| &c.outcome), Some(CallOutcome::Ok)) &&
                matches!(fclass, FaultClass::None) &&
                ref_first.error.is_none() &&
                !policy_on &&
                ref_second.as_ref().is_none_or(|b| b.error.is_none()) &&
                (s.second.is_none() || out.second.as_ref().is_some_and(|(c, _)| matches!(c.first().map(|c| &c.outcome), Some(CallOutcome::Ok))));
            if want.readback && clean_ok {
                let keys: BTreeSet<ReadKey> = ref_db.read_log.as_ref().unwrap().lock().unwrap().iter().cloned().collect();
                let state = &out.first.state;
                for key in keys {
                    stats.readback_keys += 1;
                    let diff = match &key {
                        ReadKey::Basic(a) => {
                            let x = state.basic_ref(*a).ok().flatten();
                            let y = revm::Database::basic(&mut ref_state, *a).ok().flatten();
                            (x != y).then(|| format!("basic({a}): {x:?} != {y:?}"))
                        }
                        ReadKey::Storage(a, k) => {
                            // revm's `State::storage_ref` consults the backing database for an account
                            // whose cache entry holds no account (destroyed / not existing), whereas
                            // `Database::storage` — the interface the EVM executes against — returns
                            // zero. The latter is the reference for "readable through the state".
                            let x = state.storage_ref(*a, *k).ok();
                            let y = revm::Database::storage(&mut ref_state, *a, *k).ok();
                            (x != y).then(|| format!("storage({a}, {k}): {x:?} != {y:?}"))
                        }
                        ReadKey::Code(h) => {
                            let x = state.code_by_hash_ref(*h).ok().map(|c| c.original_bytes());
                            let y = revm::Database::code_by_hash(&mut ref_state, *h).ok().map(|c| c.original_bytes());
                            (x != y).then(|| format!("code({h}) differs"))
                        }
                        ReadKey::BlockHash(_) => None,
                    };
                    // an account that carries code must have that code served by hash as well
                    let diff = diff.or_else(|| {
                        let ReadKey::Basic(a) = &key else { return None };
                        let info = revm::Database::basic(&mut ref_state, *a).ok().flatten()?;
                        if info.is_empty_code_hash() {
                            return None;
                        }
                        let expected = match &info.code {
                            Some(c) => c.original_bytes(),
                            None => revm::Database::code_by_hash(&mut ref_state, info.code_hash).ok()?.original_bytes(),
                        };
                        let served = state.code_by_hash_ref(info.code_hash).ok().map(|c| c.original_bytes());
                        (served.as_ref() != Some(&expected))
                            .then(|| format!("code of account {a} (hash {}) is served by hash as {served:?}, expected {expected:?}", info.code_hash))
                    });
                    if let Some(d) = diff {
                        let class = match &key {
                            ReadKey::Storage(..) => "readback.storage",
                            ReadKey::Basic(_) if d.starts_with("code of account") => "readback.code_by_hash",
                            ReadKey::Basic(_) => "readback.basic",
                            _ => "readback.code",
                        };
                        findings.push(finding("C10", class, d));
                        break;
                    }
                }
            }
        }
    }

    stats.behaviour = behaviour;
    stats.nontrivial = monitor.probes.reexecutions > 0 ||
        monitor.probes.validation_conflicts > 0 ||
        monitor.fallback_start.is_some() ||
        monitor.probes.exec_errors > 0 ||
        stats.db_errors_persistent + stats.db_errors_once + stats.db_errors_nth + stats.db_panics > 0 ||
        !stats.completed;
    CaseOutput { findings, stats, trace: want.record_trace.then_some(sched_out.trace), summary }
}

// ------------------------------------------------------------------------------------------------
// C06 / C13: relation between runs of one block under different configurations and entry points.
// ------------------------------------------------------------------------------------------------

struct RunSummary {
    name: String,
    call: String,
    outcomes: Vec<TxExecutionOutcome>,
    bundle: revm_database::BundleState,
}

fn summarise_call(c: Option<&run::CallResult>) -> String {
    match c.map(|c| &c.outcome) {
        None => "<no call>".into(),
        Some(CallOutcome::Ok) => "Ok".into(),
        Some(CallOutcome::Err { txid, error, .. }) => format!("Err(tx {txid}, {error})"),
        Some(CallOutcome::Panic(k)) => format!("Panic({k:?})"),
    }
}

/// Variant A = (scenario, sched[, trace]) in the simulator; B = other worker count and schedule;
/// C = execute() with force_sequential; D = fallback_sequential(). All must agree on Ok/Err, failing
/// index and error, outcomes and bundle.
pub fn run_relation_case(scenario: &Arc<Scenario>, sched: &SchedSpec, replay: Option<Trace>, want: &PipelineWant) -> CaseOutput {
    run::reset_hash_seeds(sched.seed);
    let s: &Scenario = scenario;
    let opts = RunOptions { record_trace: want.record_trace, record_log: false, expected_first: None, expected_second: None };
    let mut findings = Vec::new();
    let mut summaries: Vec<RunSummary> = Vec::new();
    let mut stats = CaseStats { txs: s.txs.len(), workers: s.grevm.concurrency, ..CaseStats::default() };
    let mut trace_out = None;
    let mut behaviour = 0xcbf2_9ce4_8422_2325u64;

    let mut sim_variant = |name: &str, sc: &Arc<Scenario>, sd: &SchedSpec, tr: Option<Trace>, first: bool, findings: &mut Vec<Finding>, stats: &mut CaseStats| -> Option<RunSummary> {
        let SimResult { verdict, sched: sched_out, monitor, steps, trace_hash, fault_counts, .. } = run::run_sim(sc, sd, tr, &opts);
        stats.decisions += sched_out.decisions;
        stats.steps += steps;
        stats.context_switches += sched_out.context_switches;
        stats.preemptions += sched_out.preemptions;
        stats.spurious_wakes += sched_out.spurious_wakes;
        stats.starve_applied += sched_out.starve_applied;
        stats.pauses_applied += sched_out.pauses_applied;
        if sched_out.fair_phase_entered {
            stats.fair_phase_entered = true;
            stats.fair_decisions = stats.fair_decisions.max(sched_out.fair_decisions);
        }
        for (i, v) in fault_counts.iter().enumerate() {
            stats.rt_faults[i] += v;
        }
        if first {
            stats.trace_hash = trace_hash;
            stats.probes = monitor.probes.clone();
            trace_out = Some(sched_out.trace.clone());
        }
        for (i, n) in monitor.incarnations.iter().enumerate() {
            fnv64(&mut behaviour, (i as u64) << 32 | (*n as u64) << 8);
        }
        fnv64(&mut behaviour, monitor.fallback_start.map_or(0xff, |x| x as u64));
        if monitor.probes.reexecutions > 0 || monitor.fallback_start.is_some() || monitor.probes.exec_errors > 0 {
            stats.nontrivial = true;
        }
        match verdict {
            Verdict::Completed(out) => {
                let mut out = *out;
                stats.db_calls += out.db.stats.calls.load(std::sync::atomic::Ordering::Relaxed);
                stats.db_latency_points += out.db.stats.latency_points.load(std::sync::atomic::Ordering::Relaxed);
                stats.db_errors_persistent += out.db.stats.errors_persistent.load(std::sync::atomic::Ordering::Relaxed);
                let bundle = take_bundle_checked(&mut out.first.state, want.retention(), findings);
                let call = out.first.calls.iter().find(|c| !matches!(&c.outcome, CallOutcome::Err { kind: ErrKind::OnlyOnce, .. }));
                Some(RunSummary { name: name.to_string(), call: summarise_call(call), outcomes: out.first.outcomes, bundle })
            }
            Verdict::Deadlock(m) => {
                findings.push(finding("C06", "relation.no_result", format!("{name}: deadlock {m}")));
                None
            }
            Verdict::StepBound => {
                findings.push(finding("C06", "relation.no_result", format!("{name}: did not terminate in the fair phase")));
                None
            }
            Verdict::HarnessError(m) => {
                findings.push(finding("HARNESS", "harness_error", m));
                None
            }
            Verdict::CustomCompleted => None,
        }
    };

    if let Some(a) = sim_variant("parallel", scenario, sched, replay, true, &mut findings, &mut stats) {
        summaries.push(a);
    }
    // B: other worker count, other schedule
    let mut sb = (**scenario).clone();
    sb.grevm.concurrency = if s.grevm.concurrency > 1 { 1 } else { 3 };
    sb.grevm.min_parallel_txs = 0;
    let sb = Arc::new(sb);
    let mut sched_b = sched.clone();
    sched_b.seed = crate::prng::derive(sched.seed, 0xb0b);
    sched_b.strategy = (sched.strategy + 1) % 7;
    if let Some(b) = sim_variant("parallel-other-workers", &sb, &sched_b, None, false, &mut findings, &mut stats) {
        summaries.push(b);
    }
    // C: min_parallel_txs above the block size (configured sequential path, inside the simulator)
    let mut sc = (**scenario).clone();
    sc.grevm.min_parallel_txs = s.txs.len() + 1;
    let sc = Arc::new(sc);
    if let Some(c) = sim_variant("min-parallel-threshold", &sc, sched, None, false, &mut findings, &mut stats) {
        summaries.push(c);
    }
    // D, E: sequential entry points, outside the simulator
    for (name, fallback_entry) in [("force-sequential", false), ("fallback-sequential-entry", true)] {
        let (call, outcomes, mut state, db) = run::run_direct(s, fallback_entry);
        stats.db_calls += db.stats.calls.load(std::sync::atomic::Ordering::Relaxed);
        stats.db_errors_persistent += db.stats.errors_persistent.load(std::sync::atomic::Ordering::Relaxed);
        let bundle = take_bundle_checked(&mut state, want.retention(), &mut findings);
        summaries.push(RunSummary { name: name.to_string(), call: summarise_call(Some(&call)), outcomes, bundle });
    }
    stats.completed = summaries.len() == 5;

    // C13 fundability invariant: with balance reservation on (Prague+), a delegated account that holds
    // at block start at least the saturating sum of the maximum costs of its own block transactions
    // is never skipped for lack of funds.
    if s.grevm.reserve_delegated_balance && s.evm.spec >= revm_primitives::hardfork::SpecId::PRAGUE {
        for acc in &s.pre_state {
            let is_delegated = acc.code.len() == 23 && acc.code.starts_with(&[0xef, 0x01, 0x00]);
            if !is_delegated {
                continue;
            }
            let mut required = revm_primitives::U256::ZERO;
            let mut own: Vec<usize> = Vec::new();
            for (i, t) in s.txs.iter().enumerate() {
                if t.caller == acc.address {
                    // revm's own maximum cost of the transaction (gas limit x fee cap + value + blob gas x
                    // blob fee cap for type-3 transactions)
                    use revm::context_interface::Transaction;
                    let cost = crate::evmenv::make_tx(t).max_balance_spending().unwrap_or(revm_primitives::U256::MAX);
                    required = required.saturating_add(cost);
                    own.push(i);
                }
            }
            // only blocks without authorisation lists (the delegation is stable for the whole block)
            let stable = s.txs.iter().all(|t| t.auths.is_empty());
            if own.is_empty() || acc.balance < required || !stable {
                continue;
            }
            for summary in &summaries {
                for &i in &own {
                    if let Some(TxExecutionOutcome::Skipped(grevm::InvalidTransaction::LackOfFundForMaxFee { .. })) = summary.outcomes.get(i) {
                        findings.push(finding(
                            "C13",
                            "fundability",
                            format!(
                                "{}: tx {i} of delegated account {} skipped for lack of funds although the account held {} >= {} at block start",
                                summary.name, acc.address, acc.balance, required
                            ),
                        ));
                    }
                }
            }
        }
    }

    if let Some((first, rest)) = summaries.split_first() {
        for other in rest {
            if first.call != other.call {
                findings.push(finding(
                    "C06",
                    "relation.result",
                    format!("{} returned {} but {} returned {}", first.name, first.call, other.name, other.call),
                ));
            } else if let Some(d) = diff_outcomes(&other.outcomes, &first.outcomes) {
                findings.push(finding("C06", "relation.outcomes", format!("{} vs {}: {d}", other.name, first.name)));
            } else if let Some(d) = diff_bundles(&other.bundle, &first.bundle) {
                findings.push(finding("C06", "relation.bundle", format!("{} vs {}: {d}", other.name, first.name)));
            }
        }
        fnv64(&mut behaviour, first.outcomes.len() as u64);
        fnv64(&mut behaviour, first.call.len() as u64);
        if first.call != "Ok" {
            stats.call_error = true;
            stats.nontrivial = true;
        }
    }
    stats.behaviour = behaviour;
    let summary = summaries.iter().map(|r| format!("{}={}", r.name, r.call.chars().take(40).collect::<String>())).collect::<Vec<_>>().join(" ");
    CaseOutput { findings, stats, trace: if want.record_trace { trace_out } else { None }, summary }
}


/// C14: before any execution `take_result_and_state()` returns no outcomes and an untouched state.
pub fn fresh_scheduler_check(s: &Scenario) -> Vec<Finding> {
    use crate::evmenv::{make_block, make_cfg, make_tx};
    let mut findings = Vec::new();
    let db = Arc::new(SimDb::from_scenario(s, false, false));
    let state = run::new_parallel_state(s, Arc::clone(&db));
    let accounts_before = state.cache.accounts.len();
    let storage_before = state.cache.storage.len();
    let txs = Arc::new(s.txs.iter().map(make_tx).collect::<Vec<_>>());
    let scheduler = grevm::Scheduler::new_with_runtime_config(make_cfg(&s.evm), make_block(&s.block), txs, state, None, run::grevm_config(s));
    let (outcomes, mut state) = scheduler.take_result_and_state();
    if !outcomes.is_empty() {
        findings.push(finding("C14", "fresh.outcomes", format!("{} outcomes before any execution", outcomes.len())));
    }
    if state.cache.accounts.len() != accounts_before || state.cache.storage.len() != storage_before || !state.cache.contracts.is_empty() && !s.warm_cache {
        findings.push(finding("C14", "fresh.cache_touched", "cache changed before any execution".into()));
    }
    if db.stats.calls.load(std::sync::atomic::Ordering::Relaxed) != 0 {
        findings.push(finding("C14", "fresh.database_read", "database read before any execution".into()));
    }
    let bundle = state.parallel_take_bundle(BundleRetention::Reverts);
    if !bundle.state.is_empty() || !bundle.contracts.is_empty() || bundle.reverts.iter().any(|r| !r.is_empty()) {
        findings.push(finding("C14", "fresh.bundle", "non-empty bundle before any execution".into()));
    }
    findings
}
