//! Minimisation of a failing case while the SAME violation class of the SAME property persists:
//! (1) structural: drop the second block, faults, transactions, workers — each candidate is accepted
//!     if it fails under the original scheduler seed or one of a few derived seeds;
//! (2) record the decision trace of the final case;
//! (3) shortest trace prefix + fair continuation (binary search);
//! (4) replace remaining context switches by "stay on the current task" (greedy ddmin, time-boxed).

use crate::checks::{self, Plan};
use crate::oracle::{self, Finding, PipelineWant};
use crate::prng::derive;
use crate::replayfile::ReplayFile;
use crate::scenario::{Scenario, SchedSpec};
use crate::simsched::Trace;
use serde_json::json;
use std::sync::Arc;
use std::time::Instant;

fn want_like(w: &PipelineWant, record: bool) -> PipelineWant {
    PipelineWant { record_trace: record, readback: w.readback, plain_state: w.plain_state }
}

fn fails(check: &str, class: &str, scenario: &Arc<Scenario>, sched: &SchedSpec, trace: Option<Trace>, want: &PipelineWant) -> Option<(Finding, Option<Trace>)> {
    let out = checks::evaluate_case(check, scenario, sched, trace, want);
    let (mine, harness) = checks::filter_findings(check, out.findings);
    if !harness.is_empty() {
        return None;
    }
    mine.into_iter().find(|f| f.class == class).map(|f| (f, out.trace))
}

/// Try a candidate scenario under the original seed and a few derived ones.
fn try_candidate(check: &str, class: &str, cand: &Scenario, sched: &SchedSpec, want: &PipelineWant, seeds: u64) -> Option<SchedSpec> {
    let cand = Arc::new(cand.clone());
    for k in 0..seeds {
        let mut s = sched.clone();
        if k > 0 {
            s.seed = derive(sched.seed, 0x5eed_0000 + k);
        }
        if fails(check, class, &cand, &s, None, &want_like(want, false)).is_some() {
            return Some(s);
        }
    }
    None
}

pub fn minimise_pipeline(check: &str, seed: u64, idx: u64, plan: &Plan, finding: &Finding, deadline: Instant) -> ReplayFile {
    let class = finding.class.clone();
    let mut scenario: Scenario = (*plan.scenario).clone();
    let mut sched = plan.sched.clone();
    let want = &plan.want;
    let budget_seeds = 12;

    // ---- (1) structural shrinking
    let mut progress = true;
    while progress && Instant::now() < deadline {
        progress = false;
        if scenario.second.is_some() {
            let mut c = scenario.clone();
            c.second = None;
            if let Some(s) = try_candidate(check, &class, &c, &sched, want, budget_seeds) {
                scenario = c;
                sched = s;
                progress = true;
                continue;
            }
        }
        for i in (0..scenario.faults.len()).rev() {
            let mut c = scenario.clone();
            c.faults.remove(i);
            if let Some(s) = try_candidate(check, &class, &c, &sched, want, budget_seeds) {
                scenario = c;
                sched = s;
                progress = true;
                break;
            }
        }
        if progress {
            continue;
        }
        for i in (0..scenario.txs.len()).rev() {
            if scenario.txs.len() <= 1 || Instant::now() > deadline {
                break;
            }
            let mut c = scenario.clone();
            let removed = c.txs.remove(i);
            // keep later nonces of the same sender consistent with the in-order truth
            for t in c.txs.iter_mut().skip(i) {
                if t.caller == removed.caller && t.nonce > removed.nonce {
                    t.nonce -= 1;
                }
            }
            if let Some(s) = try_candidate(check, &class, &c, &sched, want, budget_seeds) {
                scenario = c;
                sched = s;
                progress = true;
                break;
            }
            // also try plain removal without nonce repair
            let mut c = scenario.clone();
            c.txs.remove(i);
            if let Some(s) = try_candidate(check, &class, &c, &sched, want, budget_seeds / 2) {
                scenario = c;
                sched = s;
                progress = true;
                break;
            }
        }
        if progress {
            continue;
        }
        if scenario.grevm.concurrency > 1 {
            let mut c = scenario.clone();
            c.grevm.concurrency -= 1;
            if let Some(s) = try_candidate(check, &class, &c, &sched, want, budget_seeds) {
                scenario = c;
                sched = s;
                progress = true;
                continue;
            }
        }
        // drop pre-state accounts that nothing needs
        for i in (0..scenario.pre_state.len()).rev() {
            if Instant::now() > deadline {
                break;
            }
            let mut c = scenario.clone();
            c.pre_state.remove(i);
            if let Some(s) = try_candidate(check, &class, &c, &sched, want, 2) {
                scenario = c;
                sched = s;
                progress = true;
                break;
            }
        }
    }

    // ---- (2) record the trace
    let scenario = Arc::new(scenario);
    let mut detail = finding.detail.clone();
    let mut trace = Trace::default();
    if let Some((f, Some(t))) = fails(check, &class, &scenario, &sched, None, &want_like(want, true)) {
        detail = f.detail;
        trace = t;
    }

    // ---- (3) shortest failing prefix (with fair continuation)
    if !trace.tasks.is_empty() {
        let replay_fails = |t: &Trace| fails(check, &class, &scenario, &sched, Some(t.clone()), &want_like(want, false)).map(|(f, _)| f);
        if replay_fails(&trace).is_some() {
            let (mut lo, mut hi) = (0usize, trace.tasks.len());
            while lo < hi && Instant::now() < deadline {
                let mid = (lo + hi) / 2;
                let cand = Trace { tasks: trace.tasks[..mid].to_vec(), randoms: trace.randoms.clone() };
                if replay_fails(&cand).is_some() {
                    hi = mid;
                } else {
                    lo = mid + 1;
                }
            }
            let cand = Trace { tasks: trace.tasks[..hi].to_vec(), randoms: trace.randoms.clone() };
            if let Some(f) = replay_fails(&cand) {
                trace = cand;
                detail = f.detail;
            }
            // ---- (4) remove context switches: make decision i repeat decision i-1
            let mut i = trace.tasks.len();
            while i > 1 && Instant::now() < deadline {
                i -= 1;
                if trace.tasks[i] != trace.tasks[i - 1] {
                    let mut cand = trace.clone();
                    cand.tasks[i] = cand.tasks[i - 1];
                    if let Some(f) = replay_fails(&cand) {
                        trace = cand;
                        detail = f.detail;
                    }
                }
            }
        }
    }

    ReplayFile {
        check: check.to_string(),
        property: finding.property.to_string(),
        class,
        detail,
        seed,
        case_index: idx,
        scenario: (*scenario).clone(),
        sched,
        trace,
        extra: json!({"retention": if want.plain_state {"plain"} else {"reverts"}}),
    }
}
