//! The executable reference model: stock revm executing the transactions one at a time over
//! `revm_database::State` on the same simulated database, skipping `EVMError::Transaction`, stopping
//! at the first other error. Independent of `src/test_utils` (which lives in the code under test).

use crate::evmenv::{make_block, make_cfg, make_tx};
use crate::norm::{NormDelta, normalise};
use crate::scenario::{BlockSpec, EvmSpec, TxSpec};
use crate::simdb::{SimDb, SimDbError};
use alloy_evm::precompiles::PrecompilesMap;
use grevm::{DynParallelPrecompile, TxExecutionOutcome};
use revm::{
    Context, DatabaseCommit, DatabaseRef, ExecuteEvm, MainBuilder, MainContext,
    precompile::{PrecompileSpecId, Precompiles},
};
use revm_context::result::EVMError;
use revm_database::{BundleState, State, StateBuilder, WrapDatabaseRef, states::bundle_state::BundleRetention};
use revm_inspector::NoOpInspector;
use revm_primitives::Address;

pub type RefState<'a> = State<WrapDatabaseRef<&'a SimDb>>;

#[derive(Clone, Debug)]
pub struct RefStep {
    pub outcome: TxExecutionOutcome,
    /// Normalised state delta of an executed transaction (None for skipped ones).
    pub delta: Option<NormDelta>,
}

#[derive(Debug)]
pub struct RefBlock {
    pub steps: Vec<RefStep>,
    /// raw journal output of every executed transaction (None for skipped ones)
    pub raw: Vec<Option<revm_state::EvmState>>,
    /// (failing index, error) if in-order execution meets a fatal error.
    pub error: Option<(usize, EVMError<SimDbError>)>,
}

pub fn new_ref_state(db: &SimDb, bundle_update: bool) -> RefState<'_> {
    let builder = StateBuilder::new().with_database_ref(db);
    if bundle_update { builder.with_bundle_update().build() } else { builder.build() }
}

/// Execute one block in order on `state`. `preload_beneficiary` models the parallel path's up-front
/// load of the fee recipient (the property text of C04 defines that as the reference).
pub fn run_reference_block(
    state: &mut RefState<'_>,
    evm_spec: &EvmSpec,
    block: &BlockSpec,
    txs: &[TxSpec],
    precompiles: &[(Address, DynParallelPrecompile)],
    preload_beneficiary: bool,
) -> RefBlock {
    let mut steps = Vec::with_capacity(txs.len());
    let mut raw = Vec::with_capacity(txs.len());
    if preload_beneficiary {
        if let Err(e) = state.basic_ref(block.beneficiary) {
            return RefBlock { steps, raw, error: Some((0, EVMError::Database(e.into_external_error()))) };
        }
    }
    let cfg = make_cfg(evm_spec);
    let spec = cfg.spec;
    let mut evm = Context::mainnet()
        .with_db(&mut *state)
        .with_cfg(cfg)
        .with_block(make_block(block))
        .build_mainnet_with_inspector(NoOpInspector {})
        .with_precompiles(PrecompilesMap::from_static(Precompiles::new(PrecompileSpecId::from_spec_id(spec))));
    for (address, precompile) in precompiles {
        let precompile = precompile.to_alloy();
        evm.precompiles.apply_precompile(address, move |_| Some(precompile));
    }
    for (txid, tx) in txs.iter().enumerate() {
        match evm.transact(make_tx(tx)) {
            Ok(result_and_state) => {
                let delta = normalise(&result_and_state.state);
                raw.push(Some(result_and_state.state.clone()));
                evm.ctx.journaled_state.database.commit(result_and_state.state);
                steps.push(RefStep { outcome: TxExecutionOutcome::Executed(result_and_state.result), delta: Some(delta) });
            }
            Err(EVMError::Transaction(invalid)) => {
                raw.push(None);
                steps.push(RefStep { outcome: TxExecutionOutcome::Skipped(invalid), delta: None });
            }
            Err(other) => {
                let other = match other {
                    EVMError::Transaction(t) => EVMError::Transaction(t),
                    EVMError::Header(h) => EVMError::Header(h),
                    EVMError::Database(inner) => EVMError::Database(inner.into_external_error()),
                    EVMError::Custom(s) => EVMError::Custom(s),
                    EVMError::CustomAny(a) => EVMError::CustomAny(a),
                };
                return RefBlock { steps, raw, error: Some((txid, other)) };
            }
        }
    }
    RefBlock { steps, raw, error: None }
}

pub fn take_ref_bundle(state: &mut RefState<'_>, retention: BundleRetention) -> BundleState {
    state.merge_transitions(retention);
    state.take_bundle()
}
