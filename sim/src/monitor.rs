//! Online monitors fed by the guarded event hooks (one instance per OS thread, reset per run).
//!
//! C02: the k-th commit event (parallel `Commit` or sequential `SeqCommit`/`SeqSkip`) must carry
//!      txid == k and (result, normalised delta) equal to the k-th step of the in-order reference;
//!      checked BEFORE the delta is applied, so later overwrites cannot mask a stale commit.
//! C15(c): at every `Finality{t}` the validation timestamp exceeds the timestamp of every
//!      `Rewind{index <= t}` already emitted.
//!      And, evaluated the moment a rewind call RETURNS (no need for the finality thread to look at
//!      exactly the wrong instant): no transaction t >= index still carries a successful validation
//!      that started before the call and whose timestamp exceeds every published rewind bound of
//!      0..=t - such a validation predates a rewind covering it and is nevertheless eligible.
//! Reach probes: counts of the rare branches the properties care about.

use crate::norm::{diff_delta, normalise};
use crate::reference::RefStep;
use grevm::TxExecutionOutcome;
use grevm::verif::events::{self, Event};
use std::cell::RefCell;
use std::sync::Arc;

#[derive(Clone, Debug)]
pub struct Violation {
    /// Stable violation class, e.g. "commit.order", "commit.delta".
    pub class: &'static str,
    /// Which property the class belongs to.
    pub property: &'static str,
    pub detail: String,
}

#[derive(Clone, Debug, Default)]
pub struct Probes {
    pub exec_starts: u64,
    pub reexecutions: u64,
    pub estimate_reads: u64,
    pub exec_errors: u64,
    pub error_at_head: u64,
    pub error_at_head_invalid: u64,
    pub validations: u64,
    pub validation_conflicts: u64,
    pub rewinds: u64,
    pub finalities: u64,
    pub commits: u64,
    pub commit_needs_fallback: u64,
    pub seq_commits: u64,
    pub seq_skips: u64,
    pub seq_errors: u64,
    pub abort_fatal: u64,
    pub abort_commit_error: u64,
    pub abort_parallel_error: u64,
    pub abort_fallback: u64,
}

#[derive(Default)]
pub struct Monitor {
    /// Reference steps of the block being executed (None = no per-commit comparison).
    pub expected: Option<Arc<Vec<RefStep>>>,
    pub next_commit: usize,
    pub violations: Vec<Violation>,
    pub probes: Probes,
    pub rewinds: Vec<(usize, usize)>,
    pub incarnations: Vec<usize>,
    pub validations_per_tx: Vec<usize>,
    /// index of the first sequentially replayed transaction, if any
    pub fallback_start: Option<usize>,
    /// committed txids in event order (parallel and sequential)
    pub commit_order: Vec<usize>,
    /// event sequence number
    seq: u64,
    /// per tx: sequence number of the latest `ValidateStart`
    validate_start: Vec<u64>,
    /// per tx: (timestamp, start sequence) of the validation that currently makes it Unconfirmed
    unconfirmed: Vec<Option<(usize, u64)>>,
    finalised: Vec<bool>,
    /// mirrored rewind bounds: the largest `Rewind{index, ts}` published per index
    lower: Vec<usize>,
    /// open rewind calls: (task, index, sequence number of the call)
    open_rewinds: Vec<(usize, usize, u64)>,
}

thread_local! {
    pub static MONITOR: RefCell<Monitor> = RefCell::new(Monitor::default());
}

impl Monitor {
    fn violation(&mut self, property: &'static str, class: &'static str, detail: String) {
        if self.violations.len() < 16 {
            self.violations.push(Violation { class, property, detail });
        }
    }

    fn bump(v: &mut Vec<usize>, i: usize) {
        if v.len() <= i {
            v.resize(i + 1, 0);
        }
        v[i] += 1;
    }

    fn check_commit(
        &mut self,
        txid: usize,
        committed: Option<(&revm_context::result::ExecutionResult, &revm_state::EvmState)>,
        sequential: bool,
    ) {
        let which = if sequential { "sequential" } else { "parallel" };
        if txid != self.next_commit {
            self.violation(
                "C02",
                "commit.order",
                format!("{which} commit event for tx {txid} but the next in-order index is {}", self.next_commit),
            );
        }
        self.commit_order.push(txid);
        self.next_commit = txid + 1;
        let Some(expected) = self.expected.clone() else { return };
        let Some(step) = expected.get(txid) else {
            self.violation(
                "C02",
                "commit.beyond_reference",
                format!("{which} commit of tx {txid} but in-order execution stops after {} transactions", expected.len()),
            );
            return;
        };
        match (&step.outcome, committed) {
            (TxExecutionOutcome::Executed(exp_result), Some((result, state))) => {
                if exp_result != result {
                    self.violation(
                        "C02",
                        "commit.result",
                        format!("{which} commit of tx {txid}: result {result:?} != in-order result {exp_result:?}"),
                    );
                    return;
                }
                let actual = normalise(state);
                if let Some(diff) = diff_delta(&actual, step.delta.as_ref().expect("executed step has delta")) {
                    self.violation("C02", "commit.delta", format!("{which} commit of tx {txid}: {diff}"));
                }
            }
            (TxExecutionOutcome::Skipped(reason), Some(_)) => {
                self.violation(
                    "C03",
                    "commit.invalid_tx_committed",
                    format!("{which} commit of tx {txid} which in-order validation rejects with {reason:?}"),
                );
            }
            (TxExecutionOutcome::Executed(_), None) => {
                self.violation(
                    "C03",
                    "commit.valid_tx_skipped",
                    format!("{which} path skipped tx {txid} which in-order execution executes"),
                );
            }
            (TxExecutionOutcome::Skipped(_), None) => {}
        }
    }

    fn grow(&mut self, i: usize) {
        if self.unconfirmed.len() <= i {
            self.unconfirmed.resize(i + 1, None);
            self.validate_start.resize(i + 1, 0);
            self.finalised.resize(i + 1, false);
            self.lower.resize(i + 1, 0);
        }
    }

    pub fn on_event(&mut self, e: &Event<'_>) {
        self.seq += 1;
        match e {
            Event::ValidateStart { txid, .. } => {
                self.grow(*txid);
                self.validate_start[*txid] = self.seq;
            }
            Event::RewindCall { index } => {
                self.open_rewinds.push((grevm::verif::rt::me(), *index, self.seq));
            }
            Event::RewindReturn { index } => {
                let me = grevm::verif::rt::me();
                if let Some(pos) = self.open_rewinds.iter().rposition(|(task, i, _)| *task == me && i == index) {
                    let (_, _, call_seq) = self.open_rewinds.remove(pos);
                    let mut bound = self.lower.iter().take(*index).copied().max().unwrap_or(0);
                    for t in *index..self.unconfirmed.len() {
                        bound = bound.max(self.lower[t]);
                        if let Some((ts, start)) = self.unconfirmed[t] &&
                            !self.finalised[t] &&
                            start < call_seq &&
                            ts > bound
                        {
                            self.violation(
                                "C15",
                                "rewind.stale_validation_still_eligible",
                                format!(
                                    "rewind to {index} returned, yet tx {t} is still Unconfirmed through a validation (timestamp {ts}) that started before the rewind call and exceeds every published rewind bound of 0..={t} ({bound}): it is eligible for finality as soon as its prefix is final"
                                ),
                            );
                            break;
                        }
                    }
                }
            }
            Event::ExecStart { txid, incarnation } => {
                self.grow(*txid);
                self.unconfirmed[*txid] = None;
                self.probes.exec_starts += 1;
                if *incarnation > 1 {
                    self.probes.reexecutions += 1;
                }
                Self::bump(&mut self.incarnations, *txid);
            }
            Event::ExecEnd { ok, blocked, .. } => {
                if *blocked {
                    self.probes.estimate_reads += 1;
                }
                if !*ok {
                    self.probes.exec_errors += 1;
                }
            }
            Event::ErrorAtHead { invalid_tx, .. } => {
                self.probes.error_at_head += 1;
                if *invalid_tx {
                    self.probes.error_at_head_invalid += 1;
                }
            }
            Event::Validate { txid, ok, ts, .. } => {
                self.grow(*txid);
                self.unconfirmed[*txid] = ok.then_some((*ts, self.validate_start[*txid]));
                self.probes.validations += 1;
                if !*ok {
                    self.probes.validation_conflicts += 1;
                }
                Self::bump(&mut self.validations_per_tx, *txid);
            }
            Event::Rewind { index, ts, .. } => {
                self.grow(*index);
                self.lower[*index] = self.lower[*index].max(*ts);
                self.probes.rewinds += 1;
                self.rewinds.push((*index, *ts));
            }
            Event::Finality { txid, unconfirmed_ts, .. } => {
                self.grow(*txid);
                self.finalised[*txid] = true;
                self.probes.finalities += 1;
                // C15(c): a validation that predates a rewind covering it never reaches finality.
                let stale = self.rewinds.iter().find(|(index, ts)| index <= txid && unconfirmed_ts <= ts).copied();
                if let Some((index, ts)) = stale {
                    self.violation(
                        "C15",
                        "finality.stale_validation",
                        format!(
                            "tx {txid} finalised with validation timestamp {unconfirmed_ts} although rewind to {index} has timestamp {ts}"
                        ),
                    );
                }
            }
            Event::Commit { txid, result, state } => {
                self.probes.commits += 1;
                if self.fallback_start.is_some() {
                    self.violation("C02", "commit.after_fallback", format!("parallel commit of tx {txid} after sequential replay began"));
                }
                self.check_commit(*txid, Some((result, state)), false);
            }
            Event::CommitNeedsFallback { .. } => self.probes.commit_needs_fallback += 1,
            Event::SeqCommit { txid, result, state } => {
                self.probes.seq_commits += 1;
                self.fallback_start.get_or_insert(*txid);
                self.check_commit(*txid, Some((result, state)), true);
            }
            Event::SeqSkip { txid } => {
                self.probes.seq_skips += 1;
                self.fallback_start.get_or_insert(*txid);
                self.check_commit(*txid, None, true);
            }
            Event::SeqError { txid } => {
                self.probes.seq_errors += 1;
                self.fallback_start.get_or_insert(*txid);
            }
            Event::Abort { kind, .. } => match *kind {
                events::ABORT_FATAL => self.probes.abort_fatal += 1,
                events::ABORT_COMMIT_ERROR => self.probes.abort_commit_error += 1,
                events::ABORT_PARALLEL_ERROR => self.probes.abort_parallel_error += 1,
                _ => self.probes.abort_fallback += 1,
            },
            Event::Park { .. } | Event::Notify { .. } | Event::DepOp { .. } | Event::ValidationClaimed { .. } => {}
        }
    }
}

/// Install a fresh monitor for this OS thread and hook it to the event stream.
pub fn install(expected: Option<Arc<Vec<RefStep>>>) {
    MONITOR.with(|m| {
        *m.borrow_mut() = Monitor { expected, ..Monitor::default() };
    });
    events::set_observer(Some(Box::new(|e: &Event<'_>| {
        MONITOR.with(|m| m.borrow_mut().on_event(e));
    })));
}

/// Start monitoring a new block on the same thread (second block of a two-block run).
pub fn next_block(expected: Option<Arc<Vec<RefStep>>>) {
    MONITOR.with(|m| {
        let mut m = m.borrow_mut();
        m.expected = expected;
        m.next_commit = 0;
        m.rewinds.clear();
        m.fallback_start = None;
        m.validate_start.clear();
        m.unconfirmed.clear();
        m.finalised.clear();
        m.lower.clear();
        m.open_rewinds.clear();
    });
}

pub fn take() -> Monitor {
    events::set_observer(None);
    MONITOR.with(|m| std::mem::take(&mut *m.borrow_mut()))
}
