//! Weak-memory sampling with Miri for C15-C17: the crate /verif/miri #[path]-includes the production
//! cursor.rs / context.rs / wait.rs / tx_dependency.rs with std primitives; Miri's scheduler is seeded
//! and it emulates store buffers, so reorderings beyond sequential consistency that the declared
//! orderings permit are SAMPLED here (not covered). A failing seed replays exactly (`-Zmiri-seed`).

use serde_json::{Value, json};
use std::path::Path;
use std::process::Command;

fn scenarios(check: &str) -> &'static [&'static str] {
    match check {
        "C15" => &["cursor", "frontier"],
        "C16" => &["dependency"],
        "C17" => &["wait"],
        _ => &[],
    }
}

fn miri_dir() -> std::path::PathBuf {
    crate::paths::verif_root().join("miri")
}

fn run_miri(scenario: &str, flags: &str) -> Option<(bool, String)> {
    let out = Command::new("cargo")
        .current_dir(miri_dir())
        .args(["+nightly", "miri", "run", "--offline", "--", scenario])
        .env("MIRIFLAGS", flags)
        .env("CARGO_NET_OFFLINE", "true")
        .output()
        .ok()?;
    let text = format!("{}{}", String::from_utf8_lossy(&out.stdout), String::from_utf8_lossy(&out.stderr));
    Some((out.status.success(), text))
}

pub struct MiriOutcome {
    pub report: Value,
    /// (scenario, failing miri seed, message)
    pub violations: Vec<(String, u64, String)>,
    pub harness_errors: Vec<String>,
}

/// Run the Miri scenarios of `check` over a seed range derived from VERIF_SEED.
pub fn run(check: &str, thorough: bool, verif_seed: u64) -> MiriOutcome {
    let count: u64 = std::env::var("VERIF_MIRI_SEEDS").ok().and_then(|s| s.parse().ok()).unwrap_or(if thorough { 512 } else { 24 });
    let start = (verif_seed % 10_000) * 1_000;
    let mut per_scenario = Vec::new();
    let mut violations = Vec::new();
    let mut harness_errors = Vec::new();
    if count == 0 {
        return MiriOutcome { report: json!({"status": "skipped (VERIF_MIRI_SEEDS=0)"}), violations, harness_errors };
    }
    for sc in scenarios(check) {
        let t0 = std::time::Instant::now();
        let flags = format!("-Zmiri-many-seeds={}..{} -Zmiri-preemption-rate=0.1", start, start + count);
        match run_miri(sc, &flags) {
            None => harness_errors.push(format!("cannot run cargo +nightly miri for scenario {sc}")),
            Some((ok, text)) => {
                let passed = text.matches(&format!("ok {sc}")).count() as u64;
                let violated = text.contains("VIOLATION");
                if !ok || violated {
                    if violated || text.contains("Undefined Behavior") || text.contains("data race") || text.contains("deadlock") {
                        // find the failing seed by replaying seeds one by one
                        let mut found = None;
                        for seed in start..start + count {
                            if let Some((ok1, t1)) = run_miri(sc, &format!("-Zmiri-seed={seed} -Zmiri-preemption-rate=0.1")) &&
                                (!ok1 || t1.contains("VIOLATION"))
                            {
                                let msg = t1
                                    .lines()
                                    .find(|l| l.contains("VIOLATION") || l.contains("error:"))
                                    .unwrap_or("miri reported a failure")
                                    .to_string();
                                found = Some((seed, msg));
                                break;
                            }
                        }
                        match found {
                            Some((seed, msg)) => violations.push((sc.to_string(), seed, msg)),
                            None => harness_errors.push(format!("miri scenario {sc} failed in many-seeds mode but no single seed reproduces it")),
                        }
                    } else {
                        let tail: String = text.lines().rev().take(6).collect::<Vec<_>>().join(" | ");
                        harness_errors.push(format!("miri scenario {sc} could not run: {tail}"));
                    }
                }
                per_scenario.push(json!({"scenario": sc, "miri_seeds": [start, start + count], "seeds_passed": passed, "wall_s": t0.elapsed().as_secs_f64()}));
            }
        }
    }
    let report = json!({
        "status": if harness_errors.is_empty() { "ran" } else { "error" },
        "tool": "cargo +nightly miri run, -Zmiri-many-seeds, -Zmiri-preemption-rate=0.1",
        "what": "production cursor.rs/context.rs/wait.rs/tx_dependency.rs included by #[path] with std atomics, parking_lot and std::thread; Miri's seeded scheduler + store-buffer emulation",
        "scenarios": per_scenario,
        "note": "sampling of a weak-memory emulation, not coverage of the memory model",
    });
    let path = miri_dir().join(format!("last-{check}.json"));
    let _ = std::fs::write(path, serde_json::to_string_pretty(&report).unwrap());
    MiriOutcome { report, violations, harness_errors }
}

pub fn last_report(check: &str) -> Value {
    let path = miri_dir().join(format!("last-{check}.json"));
    match std::fs::read_to_string(path) {
        Ok(t) => serde_json::from_str(&t).unwrap_or(json!({"status": "unreadable"})),
        Err(_) => json!({"status": "not run in this invocation"}),
    }
}

/// Replay of a Miri finding: `{"miri": {"scenario": .., "seed": ..}}` in the replay file's `extra`.
pub fn replay(extra: &Value, path: &Path, property: &str, class: &str) -> i32 {
    let sc = extra["miri"]["scenario"].as_str().unwrap_or("cursor");
    let seed = extra["miri"]["seed"].as_u64().unwrap_or(0);
    match run_miri(sc, &format!("-Zmiri-seed={seed} -Zmiri-preemption-rate=0.1")) {
        Some((ok, text)) if !ok || text.contains("VIOLATION") => {
            println!("VIOLATION property={property} replay={} class={class}", path.display());
            for l in text.lines().filter(|l| l.contains("VIOLATION") || l.contains("error:")).take(3) {
                println!("  detail={l}");
            }
            1
        }
        Some(_) => {
            println!("replay did not reproduce the violation (class={class})");
            0
        }
        None => {
            println!("HARNESS-ERROR cannot run miri");
            2
        }
    }
}
