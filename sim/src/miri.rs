//! Weak-memory sampling with Miri (seeded scheduler + store-buffer emulation) for C15-C17. Filled in
//! by `sim miri`; the component checks report the last Miri result in their evidence.

use serde_json::{Value, json};

pub fn last_report(check: &str) -> Value {
    let path = crate::paths::verif_root().join("miri").join(format!("last-{check}.json"));
    match std::fs::read_to_string(path) {
        Ok(t) => serde_json::from_str(&t).unwrap_or(json!({"status": "unreadable"})),
        Err(_) => json!({"status": "not run in this invocation"}),
    }
}
