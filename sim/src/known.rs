//! Known findings (/verif/known_findings.jsonl, committed, never written at run time).
//! An entry is matched on property + violation class + every `detail_contains` substring, so a
//! different violation of the same property is still reported. `fixed` entries suppress nothing.

use crate::replayfile::ReplayFile;
use serde_json::Value;

#[derive(Clone, Debug)]
pub struct Known {
    pub status: String,
    pub property: String,
    pub class: String,
    pub detail_contains: Vec<String>,
    pub what: String,
}

impl Known {
    pub fn matches(&self, file: &ReplayFile) -> bool {
        self.property == file.property &&
            self.class == file.class &&
            self.detail_contains.iter().all(|s| file.detail.contains(s.as_str()))
    }
}

pub fn load() -> Vec<Known> {
    let path = crate::paths::verif_root().join("known_findings.jsonl");
    let Ok(text) = std::fs::read_to_string(path) else { return vec![] };
    text.lines()
        .filter(|l| !l.trim().is_empty() && !l.trim_start().starts_with('#'))
        .filter_map(|l| serde_json::from_str::<Value>(l).ok())
        .map(|v| Known {
            status: v["status"].as_str().unwrap_or("known").to_string(),
            property: v["property"].as_str().unwrap_or("").to_string(),
            class: v["class"].as_str().unwrap_or("").to_string(),
            detail_contains: v["detail_contains"]
                .as_array()
                .map(|a| a.iter().filter_map(|x| x.as_str().map(String::from)).collect())
                .unwrap_or_default(),
            what: v["what"].as_str().unwrap_or("").to_string(),
        })
        .collect()
}
