//! SimScheduler: the seeded scheduler that decides every interleaving of a simulated run.
//!
//! All choices come from one PRNG stream seeded from `SchedSpec::seed`; every decision (task id, or
//! the u64 handed to a fault point) is appended to the decision trace. A run has a random phase of at
//! most `n1` decisions and then a fair phase (round-robin, no spurious wake-ups, no buggify) of at
//! most `n2` decisions; not finishing inside the fair phase is reported by the engine as "step bound
//! exceeded" and classified by the harness as a bounded-liveness violation.
//!
//! Replay mode follows a recorded trace; when an entry names a task that is not schedulable it falls
//! back to a fixed rule (current task if schedulable, else lowest id) so traces stay shrinkable; after
//! the trace is exhausted it continues with the fair rule.

use crate::prng::Prng;
use crate::scenario::SchedSpec;
use grevm::verif::rt;
use shuttle_engine::scheduler::{Schedule, Scheduler, Task, TaskId};
use std::cell::RefCell;
use std::rc::Rc;

pub const STRAT_UNIFORM: u8 = 0;
pub const STRAT_STICKY: u8 = 1;
pub const STRAT_PCT: u8 = 2;
pub const STRAT_STARVE: u8 = 3;
/// Site-targeted delay injection: a task about to execute a schedule point whose site id falls in the
/// selected bucket is frozen for a window of decisions (a thread stalled at a precise program point).
pub const STRAT_PAUSE: u8 = 4;
/// Like PAUSE, but the frozen sites are 1-3 of the NAMED schedule points that mark the protocol's
/// narrow windows (claim -> lock, scan -> timestamp, status -> rewind, publish -> release ...).
pub const STRAT_WINDOW: u8 = 5;
/// Transaction-targeted freezes: 1-3 triggers (named site, transaction id, minimum incarnation, hits to
/// let through); a task about to execute that site while it works on that transaction (as announced
/// by the ExecStart / ValidateStart / ValidationClaimed hooks) is frozen for a window of decisions.
/// Far fewer distinct trigger instances exist per run than (site, hit count) pairs, so the narrow
/// two-window interleavings of the validation protocol are sampled much more often.
pub const STRAT_TXWINDOW: u8 = 6;

/// Sites worth qualifying by transaction: the protocol windows and the per-location memory operations.
pub const TX_SITES: &[(&str, u32)] = &[
    ("win.next.validation_claimed", 8),
    ("win.exec.done", 8),
    ("win.exec.before_status", 4),
    ("win.exec.before_rewind", 4),
    ("win.validate.after_scan", 6),
    ("win.validate.before_status", 6),
    ("win.validate.before_notify", 2),
    ("win.rewind.after_ts", 3),
    ("win.rewind.before_cursor", 3),
    ("win.hist.record", 3),
    ("win.hist.invalidate", 3),
    ("win.dep.add", 2),
    ("win.dep.remove.scan", 2),
    ("mv.publish", 4),
    ("mv.mark_estimate", 3),
    ("mv.remove_stale", 3),
    ("mv.validate", 4),
    ("mv.read.basic", 2),
    ("mv.read.slot", 3),
    ("mv.read.reset", 2),
    ("mv.read.code", 2),
    ("hist.scan", 2),
    ("db.basic", 2),
    ("db.storage", 2),
    ("db.code", 1),
    ("cache.slot.insert", 1),
];

#[derive(Clone, Debug)]
struct TxTrigger {
    site: u32,
    txid: u32,
    min_incarnation: u32,
    skips: u32,
    freezes: u32,
}

/// Named schedule points of the guarded hooks (stable under line shifts). The first group (weight 3)
/// marks the windows the properties name; the rest are memory / cache / database points.
pub const WINDOW_SITES: &[(&str, u32)] = &[
    ("win.next.validation_claimed", 6),
    ("win.validate.before_ts", 6),
    ("win.validate.after_scan", 6),
    ("win.validate.before_status", 6),
    ("win.validate.before_notify", 2),
    ("win.exec.claimed", 2),
    ("win.exec.done", 6),
    ("win.exec.before_status", 6),
    ("win.exec.before_rewind", 6),
    ("win.finality.before_lock", 6),
    ("win.finality.before_ts", 6),
    ("win.finality.before_publish", 6),
    ("win.commit.before_take", 2),
    ("win.commit.after_nonce", 2),
    ("win.commit.before_publish", 6),
    ("win.commit.before_dep_commit", 6),
    ("win.rewind.after_ts", 6),
    ("win.rewind.before_cursor", 6),
    ("win.dep.add", 2),
    ("win.dep.remove.scan", 2),
    ("win.dep.commit", 2),
    ("win.dep.key_tx.locked", 2),
    ("win.hist.record", 2),
    ("win.hist.invalidate", 2),
    ("hist.scan", 1),
    ("mv.publish", 2),
    ("mv.mark_estimate", 2),
    ("mv.remove_stale", 2),
    ("mv.validate", 2),
    ("mv.read.basic", 1),
    ("mv.read.code", 1),
    ("mv.read.slot", 1),
    ("mv.read.reset", 1),
    ("cache.basic.insert", 1),
    ("cache.code.insert", 1),
    ("cache.slot.known", 1),
    ("cache.slot.insert", 2),
    ("commit.account", 2),
    ("commit.slots", 2),
    ("db.basic", 1),
    ("db.storage", 1),
    ("db.code", 1),
];

#[derive(Clone, Debug, Default)]
pub struct Trace {
    /// Chosen task id per scheduling decision.
    pub tasks: Vec<u32>,
    /// Values handed out by `next_u64`, in order.
    pub randoms: Vec<u64>,
}

#[derive(Clone, Debug, Default)]
pub struct SchedOut {
    pub decisions: u64,
    pub context_switches: u64,
    pub preemptions: u64,
    pub fair_phase_entered: bool,
    pub fair_decisions: u64,
    pub spurious_wakes: u64,
    pub starve_applied: u64,
    pub pauses_applied: u64,
    pub yields_seen: u64,
    pub replay_fallbacks: u64,
    pub max_tasks: usize,
    pub trace: Trace,
}

pub enum Mode {
    Random,
    Replay(Trace),
}

pub struct SimScheduler {
    spec: SchedSpec,
    rng: Prng,
    mode: Mode,
    started: bool,
    out: Rc<RefCell<SchedOut>>,
    record_trace: bool,
    // strategy state
    prio: Vec<u64>,
    change_points: Vec<u64>,
    low_prio_next: u64,
    starve_role: u8,
    starve_from: u64,
    starve_len: u64,
    rr_last: usize,
    pause_modulus: u32,
    pause_residue: u32,
    pause_window: u64,
    pause_budget: u32,
    pause_prob: u64,
    window_sites: Vec<u32>,
    /// hits of a selected site still to be let through before a task is frozen there
    site_skips: Vec<(u32, u32, u32)>,
    pause_skip_any: u32,
    tx_triggers: Vec<TxTrigger>,
    frozen_until: Vec<u64>,
    frozen_site: Vec<u32>,
    replay_pos: usize,
    random_pos: usize,
    last: Option<usize>,
}

impl SimScheduler {
    pub fn new(spec: SchedSpec, mode: Mode, out: Rc<RefCell<SchedOut>>, record_trace: bool) -> Self {
        let mut rng = Prng::new(crate::prng::derive(spec.seed, 0x5c4ed));
        let mut change_points = Vec::new();
        let mut starve_role = 0;
        let mut starve_from = 0;
        let mut starve_len = 0;
        match spec.strategy {
            STRAT_PCT => {
                // p1 = depth (number of priority change points), p2 = expected run length
                for _ in 0..spec.p1 {
                    change_points.push(rng.below(spec.p2.max(1) as u64));
                }
                change_points.sort_unstable();
            }
            STRAT_STARVE => {
                // p1 = victim role, p2 = window start, p3 = window length
                starve_role = spec.p1 as u8;
                starve_from = spec.p2 as u64;
                starve_len = spec.p3 as u64;
            }
            STRAT_PAUSE => {
                // handled below (fields)
            }
            _ => {}
        }
        let (pause_modulus, pause_residue, pause_window, pause_budget) = if spec.strategy == STRAT_PAUSE {
            // p1 = bucket modulus, p2 = window length, p3 = number of freezes allowed
            let m = spec.p1.max(1);
            (m, rng.below(m as u64) as u32, spec.p2 as u64, *rng.pick(&[1u32, 1, 2, 4, 16]))
        } else {
            (1, 0, 0, 0)
        };
        // p3 = probability (per 1024) that a task reaching a selected site is frozen there
        let pause_prob = spec.p3.max(1) as u64;
        let mut window_sites = Vec::new();
        let (pause_window, pause_budget) = if spec.strategy == STRAT_WINDOW {
            // p1 = number of named sites to freeze at, p2 = window length
            let weights: Vec<u32> = WINDOW_SITES.iter().map(|(_, w)| *w).collect();
            for _ in 0..spec.p1.max(1) {
                let i = rng.pick_weighted(&weights);
                window_sites.push(rt::fnv(WINDOW_SITES[i].0.as_bytes()));
            }
            (spec.p2 as u64, *rng.pick(&[1u32, 1, 2, 2, 4, 16]))
        } else {
            (pause_window, pause_budget)
        };
        // freeze at the (skip+1)-th hit of a selected site, not always at the first one
        // (site, hits still to let through, freezes left at this site)
        let site_skips: Vec<(u32, u32, u32)> =
            window_sites.iter().map(|s| (*s, *rng.pick(&[0u32, 0, 0, 1, 2, 3, 5, 8]), *rng.pick(&[1u32, 1, 1, 2, 3]))).collect();
        let pause_skip_any = *rng.pick(&[0u32, 0, 1, 2, 4, 8, 16, 32]);
        let mut tx_triggers = Vec::new();
        let (pause_window, pause_budget) = if spec.strategy == STRAT_TXWINDOW {
            // p1 = number of triggers, p2 = window length
            let weights: Vec<u32> = TX_SITES.iter().map(|(_, w)| *w).collect();
            for _ in 0..spec.p1.max(1) {
                let i = rng.pick_weighted(&weights);
                tx_triggers.push(TxTrigger {
                    site: rt::fnv(TX_SITES[i].0.as_bytes()),
                    txid: *rng.pick(&[0u32, 1, 1, 2, 2, 3, 3, 4, 5]),
                    min_incarnation: *rng.pick(&[0u32, 0, 2, 2, 3]),
                    skips: *rng.pick(&[0u32, 0, 0, 0, 1, 2]),
                    freezes: *rng.pick(&[1u32, 1, 1, 2]),
                });
            }
            (spec.p2 as u64, 8)
        } else {
            (pause_window, pause_budget)
        };
        Self {
            spec,
            rng,
            mode,
            started: false,
            out,
            record_trace,
            prio: Vec::new(),
            change_points,
            low_prio_next: 1_000_000,
            starve_role,
            starve_from,
            starve_len,
            rr_last: 0,
            pause_modulus,
            pause_residue,
            pause_window,
            pause_budget,
            pause_prob,
            window_sites,
            site_skips,
            pause_skip_any,
            tx_triggers,
            frozen_until: Vec::new(),
            frozen_site: Vec::new(),
            replay_pos: 0,
            random_pos: 0,
            last: None,
        }
    }

    fn prio_of(&mut self, task: usize) -> u64 {
        while self.prio.len() <= task {
            // Random high priorities; lower number = lower priority. Change points push tasks below.
            let p = 2_000_000 + self.rng.below(1_000_000);
            self.prio.push(p);
        }
        self.prio[task]
    }

    fn demote(&mut self, task: usize) {
        let _ = self.prio_of(task);
        self.low_prio_next -= 1;
        self.prio[task] = self.low_prio_next;
    }

    fn fair_pick(&mut self, ready: &[usize]) -> usize {
        // round robin by task id
        let next = ready.iter().copied().find(|&t| t > self.rr_last).unwrap_or(ready[0]);
        self.rr_last = next;
        next
    }
}

impl Scheduler for SimScheduler {
    fn new_execution(&mut self) -> Option<Schedule> {
        if self.started {
            None
        } else {
            self.started = true;
            Some(Schedule::new(self.spec.seed))
        }
    }

    fn next_task(&mut self, runnable: &[&Task], current: Option<TaskId>, is_yielding: bool) -> Option<TaskId> {
        let current = current.map(usize::from);
        let mut ready: Vec<usize> = Vec::with_capacity(runnable.len());
        let mut parked: Vec<usize> = Vec::new();
        for t in runnable {
            let id = usize::from(t.id());
            if t.runnable() {
                ready.push(id);
            } else if t.can_spuriously_wakeup() {
                parked.push(id);
            }
        }
        debug_assert!(!ready.is_empty(), "engine only asks when some task is runnable");
        let decision_index;
        {
            let mut out = self.out.borrow_mut();
            decision_index = out.decisions;
            out.decisions += 1;
            if is_yielding {
                out.yields_seen += 1;
            }
            out.max_tasks = out.max_tasks.max(ready.len() + parked.len());
        }

        let chosen: usize = match &self.mode {
            Mode::Replay(trace) => {
                let pos = self.replay_pos;
                self.replay_pos += 1;
                if pos < trace.tasks.len() {
                    let want = trace.tasks[pos] as usize;
                    if ready.contains(&want) || parked.contains(&want) {
                        want
                    } else {
                        self.out.borrow_mut().replay_fallbacks += 1;
                        match current {
                            Some(c) if ready.contains(&c) && !is_yielding => c,
                            _ => ready[0],
                        }
                    }
                } else {
                    let mut out = self.out.borrow_mut();
                    out.fair_phase_entered = true;
                    out.fair_decisions += 1;
                    drop(out);
                    self.fair_pick(&ready)
                }
            }
            Mode::Random => {
                if decision_index >= self.spec.n1 {
                    {
                        let mut out = self.out.borrow_mut();
                        out.fair_phase_entered = true;
                        out.fair_decisions += 1;
                    }
                    self.fair_pick(&ready)
                } else {
                    // spurious wake-up / "timeout" of a parked task (fault), never in strict mode
                    if !self.spec.strict &&
                        !parked.is_empty() &&
                        self.spec.spurious_per_1024 > 0 &&
                        self.rng.below(1024) < self.spec.spurious_per_1024 as u64
                    {
                        self.out.borrow_mut().spurious_wakes += 1;
                        parked[self.rng.below(parked.len() as u64) as usize]
                    } else {
                        // thread stall: victims of the starve window are not scheduled
                        let mut cands: Vec<usize> = ready.clone();
                        if self.spec.strategy == STRAT_STARVE &&
                            decision_index >= self.starve_from &&
                            decision_index < self.starve_from + self.starve_len
                        {
                            // victim: one task (p1 >= 16 encodes task id p1 - 16) or every task of a role
                            let victim_task = (self.starve_role >= 16).then(|| (self.starve_role - 16) as usize);
                            let filtered: Vec<usize> = cands
                                .iter()
                                .copied()
                                .filter(|&t| match victim_task {
                                    Some(v) => t != v,
                                    None => rt::role_of(t) != self.starve_role,
                                })
                                .collect();
                            if !filtered.is_empty() && filtered.len() < cands.len() {
                                self.out.borrow_mut().starve_applied += 1;
                                cands = filtered;
                            }
                        }
                        if self.spec.strategy == STRAT_PAUSE || self.spec.strategy == STRAT_WINDOW {
                            let mut kept: Vec<usize> = Vec::with_capacity(cands.len());
                            for &t in &cands {
                                if self.frozen_until.len() <= t {
                                    self.frozen_until.resize(t + 1, 0);
                                    self.frozen_site.resize(t + 1, 0);
                                }
                                let site = rt::pending_site(t);
                                if self.frozen_until[t] > decision_index && self.frozen_site[t] == site {
                                    continue; // still frozen at that point
                                }
                                let selected = site != 0 &&
                                    self.frozen_site[t] != site &&
                                    (if self.spec.strategy == STRAT_WINDOW {
                                        self.window_sites.contains(&site)
                                    } else {
                                        site % self.pause_modulus == self.pause_residue
                                    });
                                let mut let_through = false;
                                if selected && self.pause_budget > 0 {
                                    if self.spec.strategy == STRAT_WINDOW {
                                        if let Some(entry) = self.site_skips.iter_mut().find(|(s, _, _)| *s == site) {
                                            if entry.1 > 0 {
                                                entry.1 -= 1;
                                                let_through = true;
                                            } else if entry.2 == 0 {
                                                let_through = true; // this site's freezes are used up
                                            } else {
                                                entry.2 -= 1;
                                            }
                                        }
                                    } else if self.pause_skip_any > 0 {
                                        self.pause_skip_any -= 1;
                                        let_through = true;
                                    }
                                }
                                if let_through {
                                    // remember that this hit was counted, so the same pending operation
                                    // is not counted again at the next decision
                                    self.frozen_site[t] = site;
                                    self.frozen_until[t] = 0;
                                    kept.push(t);
                                    continue;
                                }
                                if self.pause_budget > 0 && selected && self.rng.below(1024) < self.pause_prob {
                                    // freeze this task right before the selected program point
                                    self.pause_budget -= 1;
                                    self.frozen_until[t] = decision_index + self.pause_window;
                                    self.frozen_site[t] = site;
                                    self.out.borrow_mut().pauses_applied += 1;
                                    continue;
                                }
                                if self.frozen_site[t] != site {
                                    self.frozen_site[t] = 0;
                                }
                                kept.push(t);
                            }
                            if !kept.is_empty() {
                                cands = kept;
                            }
                        }
                        if self.spec.strategy == STRAT_TXWINDOW {
                            let mut kept: Vec<usize> = Vec::with_capacity(cands.len());
                            for &t in &cands {
                                if self.frozen_until.len() <= t {
                                    self.frozen_until.resize(t + 1, 0);
                                    self.frozen_site.resize(t + 1, 0);
                                }
                                let site = rt::pending_site(t);
                                if self.frozen_until[t] > decision_index && self.frozen_site[t] == site {
                                    continue; // still frozen at that point
                                }
                                let mut freeze = false;
                                if site != 0 && self.frozen_site[t] != site {
                                    let (kind, txid, inc) = rt::current_op(t);
                                    if kind != 0 &&
                                        let Some(tr) = self.tx_triggers.iter_mut().find(|tr| {
                                            tr.site == site && tr.txid == txid && (inc >= tr.min_incarnation || kind == rt::OP_CLAIM) && tr.freezes > 0
                                        })
                                    {
                                        if tr.skips > 0 {
                                            tr.skips -= 1;
                                            // count this pending operation once
                                            self.frozen_site[t] = site;
                                            self.frozen_until[t] = 0;
                                        } else {
                                            tr.freezes -= 1;
                                            freeze = true;
                                        }
                                    }
                                }
                                if freeze {
                                    self.frozen_until[t] = decision_index + self.pause_window;
                                    self.frozen_site[t] = site;
                                    self.out.borrow_mut().pauses_applied += 1;
                                    continue;
                                }
                                if self.frozen_site[t] != site {
                                    self.frozen_site[t] = 0;
                                }
                                kept.push(t);
                            }
                            if !kept.is_empty() {
                                cands = kept;
                            }
                        }
                        match self.spec.strategy {
                            STRAT_STICKY => {
                                // p1 = stickiness per 1024
                                match current {
                                    Some(c)
                                        if cands.contains(&c) &&
                                            !is_yielding &&
                                            self.rng.below(1024) < self.spec.p1 as u64 =>
                                    {
                                        c
                                    }
                                    _ => {
                                        let others: Vec<usize> = cands
                                            .iter()
                                            .copied()
                                            .filter(|&t| Some(t) != current || cands.len() == 1)
                                            .collect();
                                        others[self.rng.below(others.len() as u64) as usize]
                                    }
                                }
                            }
                            STRAT_PCT => {
                                while let Some(&cp) = self.change_points.first() {
                                    if cp <= decision_index {
                                        self.change_points.remove(0);
                                        if let Some(c) = current {
                                            self.demote(c);
                                        }
                                    } else {
                                        break;
                                    }
                                }
                                if is_yielding && let Some(c) = current {
                                    // a spinning / yielding task must not starve the others
                                    self.demote(c);
                                }
                                let mut best = cands[0];
                                let mut best_p = self.prio_of(best);
                                for &t in &cands[1..] {
                                    let p = self.prio_of(t);
                                    if p > best_p {
                                        best = t;
                                        best_p = p;
                                    }
                                }
                                best
                            }
                            _ => {
                                // uniform (also the base of starve); a yielding task is de-prioritised
                                if is_yielding && cands.len() > 1 {
                                    let others: Vec<usize> =
                                        cands.iter().copied().filter(|&t| Some(t) != current).collect();
                                    others[self.rng.below(others.len() as u64) as usize]
                                } else {
                                    cands[self.rng.below(cands.len() as u64) as usize]
                                }
                            }
                        }
                    }
                }
            }
        };

        {
            let mut out = self.out.borrow_mut();
            if let Some(last) = self.last &&
                last != chosen
            {
                out.context_switches += 1;
                if ready.contains(&last) && !is_yielding {
                    out.preemptions += 1;
                }
            }
            if self.record_trace {
                out.trace.tasks.push(chosen as u32);
            }
        }
        self.last = Some(chosen);
        Some(TaskId::from(chosen))
    }

    fn next_u64(&mut self) -> u64 {
        let v = match &self.mode {
            Mode::Replay(trace) => {
                let pos = self.random_pos;
                self.random_pos += 1;
                trace.randoms.get(pos).copied().unwrap_or(u64::MAX)
            }
            Mode::Random => {
                // in the fair phase fault points are disabled: hand out a value that fires nothing
                if self.out.borrow().decisions >= self.spec.n1 { u64::MAX } else { self.rng.next_u64() }
            }
        };
        if self.record_trace {
            self.out.borrow_mut().trace.randoms.push(v);
        }
        v
    }
}
