//! SimDb: the simulated backing database ("disk" of this system). In-memory state; every call is a
//! schedule point (latency) except `block_hash_ref` (called by Grevm while a DashMap entry guard is
//! alive); a fault plan decides error / fail-once / fail-nth / panic per key, per call ordinal and per
//! thread role. Fire counts are measured.

use crate::scenario::{AccountSpec, FaultAction, FaultKey, FaultMode, FaultRule, Scenario};
use grevm::verif::rt;
use revm::DatabaseRef;
use revm_context::DBErrorMarker;
use revm_primitives::{Address, B256, KECCAK_EMPTY, U256, keccak256};
use revm_state::{AccountInfo, Bytecode};
use std::collections::HashMap;
use std::fmt;
use std::sync::Mutex;
use std::sync::atomic::{AtomicU64, Ordering};

#[derive(Clone, Debug, PartialEq, Eq)]
pub struct SimDbError {
    pub key: String,
}

impl fmt::Display for SimDbError {
    fn fmt(&self, f: &mut fmt::Formatter<'_>) -> fmt::Result {
        write!(f, "simulated database fault at {}", self.key)
    }
}

impl std::error::Error for SimDbError {}
impl DBErrorMarker for SimDbError {}

/// Payload of an injected panic (unique per rule so the harness can check that the ORIGINAL panic
/// reaches the caller).
#[derive(Clone, Debug, PartialEq, Eq)]
pub struct SimPanic {
    pub rule: usize,
    pub key: String,
}

#[derive(Clone, Debug, PartialEq, Eq, Hash, PartialOrd, Ord)]
pub enum ReadKey {
    Basic(Address),
    Storage(Address, U256),
    Code(B256),
    BlockHash(u64),
}

#[derive(Debug, Default)]
pub struct DbStats {
    pub calls: AtomicU64,
    pub errors_persistent: AtomicU64,
    pub errors_once: AtomicU64,
    pub errors_nth: AtomicU64,
    pub panics: AtomicU64,
    pub latency_points: AtomicU64,
    /// requests for a non-empty code hash the database does not hold
    pub unknown_code_requests: AtomicU64,
}

#[derive(Debug)]
pub struct SimDb {
    accounts: HashMap<Address, AccountInfo>,
    storage: HashMap<(Address, U256), U256>,
    codes: HashMap<B256, Bytecode>,
    block_hashes: HashMap<u64, B256>,
    rules: Vec<(FaultRule, AtomicU64)>,
    pub stats: DbStats,
    /// Every key read, in call order (only recorded when enabled: reference runs).
    pub read_log: Option<Mutex<Vec<ReadKey>>>,
    /// Return the bytecode inline from `basic_ref` (true) or only by hash (false).
    pub inline_code: bool,
}

pub fn code_hash_of(code: &[u8]) -> B256 {
    if code.is_empty() { KECCAK_EMPTY } else { keccak256(code) }
}

impl SimDb {
    pub fn new(pre_state: &[AccountSpec], block_hashes: &[(u64, B256)], faults: &[FaultRule], record_reads: bool) -> Self {
        let mut accounts = HashMap::new();
        let mut storage = HashMap::new();
        let mut codes = HashMap::new();
        for acc in pre_state {
            let code_hash = code_hash_of(&acc.code);
            if !acc.code.is_empty() {
                codes.insert(code_hash, Bytecode::new_raw(acc.code.clone()));
            }
            accounts.insert(
                acc.address,
                AccountInfo { balance: acc.balance, nonce: acc.nonce, code_hash, account_id: None, code: None },
            );
            for (k, v) in &acc.storage {
                storage.insert((acc.address, *k), *v);
            }
        }
        Self {
            accounts,
            storage,
            codes,
            block_hashes: block_hashes.iter().copied().collect(),
            rules: faults.iter().cloned().map(|r| (r, AtomicU64::new(0))).collect(),
            stats: DbStats::default(),
            read_log: record_reads.then(|| Mutex::new(Vec::new())),
            inline_code: false,
        }
    }

    pub fn from_scenario(s: &Scenario, with_faults: bool, record_reads: bool) -> Self {
        Self::new(&s.pre_state, &s.block_hashes, if with_faults { &s.faults } else { &[] }, record_reads)
    }

    pub fn faults_fired(&self) -> u64 {
        self.stats.errors_persistent.load(Ordering::Relaxed) +
            self.stats.errors_once.load(Ordering::Relaxed) +
            self.stats.errors_nth.load(Ordering::Relaxed) +
            self.stats.panics.load(Ordering::Relaxed)
    }

    fn check(&self, key: ReadKey, site: &'static str, may_switch: bool) -> Result<(), SimDbError> {
        let ordinal = self.stats.calls.fetch_add(1, Ordering::Relaxed);
        if let Some(log) = &self.read_log {
            log.lock().unwrap().push(key.clone());
        }
        if may_switch && rt::can_switch() {
            self.stats.latency_points.fetch_add(1, Ordering::Relaxed);
            rt::sched_point(site);
        }
        if self.rules.is_empty() {
            return Ok(());
        }
        let role = if rt::in_sim() { rt::role_of(rt::me()) } else { rt::ROLE_CALLER };
        for (idx, (rule, matches)) in self.rules.iter().enumerate() {
            let key_matches = match (&rule.key, &key) {
                (FaultKey::Any, _) => true,
                (FaultKey::Basic(a), ReadKey::Basic(b)) => a == b,
                (FaultKey::Storage(a, s), ReadKey::Storage(b, t)) => a == b && s == t,
                (FaultKey::Code(a), ReadKey::Code(b)) => a == b,
                (FaultKey::BlockHash(a), ReadKey::BlockHash(b)) => a == b,
                _ => false,
            };
            if !key_matches {
                continue;
            }
            if rule.roles != 0 && rule.roles & (1 << role) == 0 {
                continue;
            }
            let nth = if matches!(rule.key, FaultKey::Any) { ordinal } else { matches.fetch_add(1, Ordering::Relaxed) };
            let fire = match rule.mode {
                FaultMode::Persistent => true,
                FaultMode::Once => {
                    if matches!(rule.key, FaultKey::Any) {
                        matches.fetch_add(1, Ordering::Relaxed) == 0
                    } else {
                        nth == 0
                    }
                }
                FaultMode::Nth(n) => nth == n,
            };
            if !fire {
                continue;
            }
            let key_text = format!("{key:?}");
            match rule.action {
                FaultAction::Error => {
                    match rule.mode {
                        FaultMode::Persistent => &self.stats.errors_persistent,
                        FaultMode::Once => &self.stats.errors_once,
                        FaultMode::Nth(_) => &self.stats.errors_nth,
                    }
                    .fetch_add(1, Ordering::Relaxed);
                    return Err(SimDbError { key: key_text });
                }
                FaultAction::Panic => {
                    self.stats.panics.fetch_add(1, Ordering::Relaxed);
                    std::panic::panic_any(SimPanic { rule: idx, key: key_text });
                }
            }
        }
        Ok(())
    }
}

impl DatabaseRef for SimDb {
    type Error = SimDbError;

    fn basic_ref(&self, address: Address) -> Result<Option<AccountInfo>, Self::Error> {
        self.check(ReadKey::Basic(address), "db.basic", true)?;
        Ok(self.accounts.get(&address).map(|info| {
            let mut info = info.clone();
            if self.inline_code && info.code_hash != KECCAK_EMPTY {
                info.code = self.codes.get(&info.code_hash).cloned();
            }
            info
        }))
    }

    fn code_by_hash_ref(&self, code_hash: B256) -> Result<Bytecode, Self::Error> {
        self.check(ReadKey::Code(code_hash), "db.code", true)?;
        match self.codes.get(&code_hash) {
            Some(code) => Ok(code.clone()),
            None => {
                if code_hash != KECCAK_EMPTY && code_hash != B256::ZERO {
                    self.stats.unknown_code_requests.fetch_add(1, Ordering::Relaxed);
                    if std::env::var_os("VERIF_DEBUG").is_some() {
                        eprintln!("UNKNOWN CODE {code_hash} in_sim={} task={}\n{}", rt::in_sim(), if rt::in_sim() { rt::me() } else { 99 }, std::backtrace::Backtrace::force_capture());
                    }
                }
                Ok(Bytecode::default())
            }
        }
    }

    fn storage_ref(&self, address: Address, index: U256) -> Result<U256, Self::Error> {
        self.check(ReadKey::Storage(address, index), "db.storage", true)?;
        Ok(self.storage.get(&(address, index)).copied().unwrap_or_default())
    }

    fn block_hash_ref(&self, number: u64) -> Result<B256, Self::Error> {
        // No schedule point: Grevm calls this while holding a DashMap entry guard.
        self.check(ReadKey::BlockHash(number), "db.block_hash", false)?;
        Ok(self.block_hashes.get(&number).copied().unwrap_or_else(|| keccak256(number.to_be_bytes())))
    }
}
