//! Fault plans: keys are drawn mostly from the keys the in-order reference touched (so they fire),
//! some from keys only a stale speculative attempt can touch (reference with selected predecessors
//! removed), some at random.

use crate::prng::Prng;
use crate::reference;
use crate::scenario::{FaultAction, FaultKey, FaultMode, FaultRule, Scenario};
use crate::simdb::{ReadKey, SimDb};
use grevm::verif::rt;

fn to_fault_key(k: &ReadKey) -> FaultKey {
    match k {
        ReadKey::Basic(a) => FaultKey::Basic(*a),
        ReadKey::Storage(a, s) => FaultKey::Storage(*a, *s),
        ReadKey::Code(h) => FaultKey::Code(*h),
        ReadKey::BlockHash(n) => FaultKey::BlockHash(*n),
    }
}

/// Keys the fault-free in-order run reads, in call order.
pub fn reference_reads(s: &Scenario, skip_tx: Option<usize>) -> Vec<ReadKey> {
    let db = SimDb::from_scenario(s, false, true);
    let mut state = reference::new_ref_state(&db, false);
    let txs: Vec<_> = s.txs.iter().enumerate().filter(|(i, _)| Some(*i) != skip_tx).map(|(_, t)| t.clone()).collect();
    let log = std::sync::Arc::new(crate::precompiles::PrecompileLog::default());
    let pcs = crate::precompiles::build(&s.precompiles, &log);
    let _ = reference::run_reference_block(&mut state, &s.evm, &s.block, &txs, &pcs, true);
    drop(state);
    db.read_log.as_ref().unwrap().lock().unwrap().clone()
}

fn pick_key(s: &Scenario, rng: &mut Prng) -> (FaultKey, &'static str) {
    let in_order = reference_reads(s, None);
    match rng.below(10) {
        // (b) keys only a stale attempt reads: remove one predecessor and diff the read sets
        0..=2 if s.txs.len() >= 2 => {
            let skip = rng.below(s.txs.len() as u64 - 1) as usize;
            let stale = reference_reads(s, Some(skip));
            let only_stale: Vec<&ReadKey> = stale.iter().filter(|k| !in_order.contains(k)).collect();
            if !only_stale.is_empty() {
                let k: &ReadKey = *rng.pick(&only_stale);
                return (to_fault_key(k), "stale-only-key");
            }
            if in_order.is_empty() {
                return (FaultKey::Basic(s.block.beneficiary), "beneficiary-key");
            }
            (to_fault_key(rng.pick(&in_order)), "reference-key")
        }
        // (c) the beneficiary
        3 => (FaultKey::Basic(s.block.beneficiary), "beneficiary-key"),
        // random
        4 => (FaultKey::Storage(crate::workload::contract(0), revm_primitives::U256::from(rng.below(4))), "random-key"),
        _ if !in_order.is_empty() => (to_fault_key(rng.pick(&in_order)), "reference-key"),
        _ => (FaultKey::Basic(s.block.beneficiary), "beneficiary-key"),
    }
}

/// Add 1-2 error rules. Returns the case group label.
pub fn add_error_faults(s: &mut Scenario, rng: &mut Prng) -> &'static str {
    let persistent = rng.chance(1, 2);
    let n = if rng.chance(1, 5) { 2 } else { 1 };
    let mut label = "fault";
    for _ in 0..n {
        let (key, origin) = pick_key(s, rng);
        label = origin;
        let mode = if persistent {
            FaultMode::Persistent
        } else if rng.chance(1, 2) {
            FaultMode::Once
        } else {
            FaultMode::Nth(rng.below(3))
        };
        s.faults.push(FaultRule { key, mode, action: FaultAction::Error, roles: 0 });
    }
    if !persistent && rng.chance(1, 6) {
        s.faults.push(FaultRule { key: FaultKey::Any, mode: FaultMode::Nth(rng.below(30)), action: FaultAction::Error, roles: 0 });
    }
    // fault runs use a cold cache so that the database is actually consulted
    s.warm_cache = false;
    match (persistent, label) {
        (true, "stale-only-key") => "persistent-fault/stale-only-key",
        (true, "beneficiary-key") => "persistent-fault/beneficiary-key",
        (true, _) => "persistent-fault/reference-key",
        (false, "stale-only-key") => "transient-fault/stale-only-key",
        (false, _) => "transient-fault",
    }
}

/// Add one panic rule on a chosen thread role. Returns the case group label.
pub fn add_panic_fault(s: &mut Scenario, rng: &mut Prng) -> &'static str {
    let (key, _) = pick_key(s, rng);
    let (roles, label) = match rng.below(4) {
        0 => (1u8 << rt::ROLE_WORKER, "panic/worker"),
        1 => (1u8 << rt::ROLE_COMMIT, "panic/commit-thread"),
        2 => (1u8 << rt::ROLE_CALLER, "panic/caller"),
        _ => (0u8, "panic/any-role"),
    };
    let mode = match rng.below(3) {
        0 => FaultMode::Persistent,
        1 => FaultMode::Once,
        _ => FaultMode::Nth(rng.below(3)),
    };
    s.faults.push(FaultRule { key, mode, action: FaultAction::Panic, roles });
    s.warm_cache = false;
    label
}


/// Systematic fault plans of one block: every key the in-order reference reads (call order,
/// de-duplicated), then every key only a stale attempt reads (reference with one predecessor
/// removed), then the fee recipient; crossed with the modes persistent / fail-once / fail-at-second-call.
/// Ordered mode-major so that the first |keys| plans put a persistent fault on every key once.
pub fn enumerate_plans(s: &Scenario) -> Vec<(FaultKey, FaultMode, &'static str)> {
    let mut keys: Vec<(FaultKey, &'static str)> = Vec::new();
    let in_order = reference_reads(s, None);
    for k in &in_order {
        let fk = to_fault_key(k);
        if !keys.iter().any(|(x, _)| *x == fk) {
            keys.push((fk, "reference-key"));
        }
    }
    for skip in 0..s.txs.len().saturating_sub(1) {
        for k in reference_reads(s, Some(skip)) {
            let fk = to_fault_key(&k);
            if !keys.iter().any(|(x, _)| *x == fk) {
                keys.push((fk, "stale-only-key"));
            }
        }
    }
    let b = FaultKey::Basic(s.block.beneficiary);
    if !keys.iter().any(|(x, _)| *x == b) {
        keys.push((b, "beneficiary-key"));
    }
    let mut plans = Vec::new();
    for mode in [FaultMode::Persistent, FaultMode::Once, FaultMode::Nth(1)] {
        for (k, origin) in &keys {
            plans.push((k.clone(), mode.clone(), *origin));
        }
    }
    plans
}
