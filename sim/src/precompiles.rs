//! Harness-side custom precompiles (user-supplied code in production too): registered in Grevm and,
//! through the public `DynParallelPrecompile::to_alloy()`, in the stock-revm reference.
//! Every facade access is a schedule point (latency inside user code), and observation logs are tagged
//! by the executing task so committed attempts can be told from discarded ones.

use crate::scenario::{PrecompileKind, PrecompileSpec};
use grevm::verif::rt;
use grevm::{DynParallelPrecompile, ParallelPrecompileError, ParallelPrecompileInput, ParallelPrecompileResult};
use revm::precompile::{PrecompileError, PrecompileHalt, PrecompileId, PrecompileOutput};
use revm_primitives::{Address, Bytes, U256};
use std::sync::Mutex;
use std::sync::atomic::{AtomicU64, Ordering};

#[derive(Debug)]
pub struct PrecompilePanic;

#[derive(Clone, Debug, PartialEq, Eq)]
pub struct Observation {
    /// simulator task that executed the call (usize::MAX outside the simulator)
    pub task: usize,
    pub precompile: Address,
    pub op: u8,
    pub address: Address,
    pub key: U256,
    pub value: U256,
    pub is_static: bool,
}

#[derive(Debug, Default)]
pub struct PrecompileLog {
    pub observations: Mutex<Vec<Observation>>,
    pub calls: AtomicU64,
    pub fatals: AtomicU64,
    pub halts: AtomicU64,
    pub panics: AtomicU64,
    pub ignored_faults: AtomicU64,
    pub static_mutations_refused: AtomicU64,
}

fn word(data: &[u8], offset: usize) -> U256 {
    let mut buf = [0u8; 32];
    if offset < data.len() {
        let end = (offset + 32).min(data.len());
        buf[..end - offset].copy_from_slice(&data[offset..end]);
    }
    U256::from_be_bytes(buf)
}

fn addr_at(data: &[u8], offset: usize) -> Address {
    let mut buf = [0u8; 20];
    if offset < data.len() {
        let end = (offset + 20).min(data.len());
        buf[..end - offset].copy_from_slice(&data[offset..end]);
    }
    Address::from(buf)
}

fn out(gas: u64, value: U256, input: &ParallelPrecompileInput<'_>) -> ParallelPrecompileResult {
    if gas > input.gas() {
        return Err(ParallelPrecompileError::Halt(PrecompileHalt::OutOfGas));
    }
    Ok(PrecompileOutput::new(gas, Bytes::from(value.to_be_bytes::<32>().to_vec()), input.reservoir()))
}

fn task() -> usize {
    if rt::in_sim() { rt::me() } else { usize::MAX }
}

/// calldata: op(1) | address(20) | key(32) | value(32)
///   op 0: balance(address)        -> balance
///   op 1: sload(address, key)     -> value
///   op 2: set_balance(address, value-at-21)
///   op 3: sstore(address, key, value)
///   op 4: sload then sstore(key, old+1) (read-modify-write)
fn bank_call(
    this: Address,
    log: &PrecompileLog,
    observe: bool,
    input: &mut ParallelPrecompileInput<'_>,
) -> ParallelPrecompileResult {
    log.calls.fetch_add(1, Ordering::Relaxed);
    let data = input.data().to_vec();
    let op = data.first().copied().unwrap_or(0);
    let address = addr_at(&data, 1);
    let key = word(&data, 21);
    let value = word(&data, 53);
    let is_static = input.is_static();
    rt::sched_point("precompile.call");
    let mut record = |op: u8, key: U256, value: U256| {
        if observe {
            log.observations.lock().unwrap().push(Observation {
                task: task(),
                precompile: this,
                op,
                address,
                key,
                value,
                is_static,
            });
        }
    };
    match op {
        0 => {
            let load = input.state().balance(address)?;
            record(0, U256::ZERO, load.data);
            out(if load.is_cold { 2700 } else { 200 }, load.data, input)
        }
        1 => {
            let load = input.state().sload(address, key)?;
            record(1, key, load.data);
            out(if load.is_cold { 2200 } else { 200 }, load.data, input)
        }
        2 => {
            let load = input.state().set_balance(address, key)?;
            record(2, U256::ZERO, key);
            out(if load.is_cold { 2700 } else { 300 }, U256::from(1), input)
        }
        3 => {
            let load = input.state().sstore(address, key, value)?;
            record(3, key, value);
            out(if load.is_cold { 5000 } else { 3000 }, load.data.original_value, input)
        }
        _ => {
            let old = input.state().sload(address, key)?;
            record(1, key, old.data);
            rt::sched_point("precompile.between");
            let new = old.data.wrapping_add(U256::from(1));
            let st = input.state().sstore(address, key, new)?;
            record(3, key, new);
            out(if old.is_cold || st.is_cold { 7000 } else { 3200 }, old.data, input)
        }
    }
}

pub fn build(specs: &[PrecompileSpec], log: &std::sync::Arc<PrecompileLog>) -> Vec<(Address, DynParallelPrecompile)> {
    let mut v = Vec::new();
    for spec in specs {
        let this = spec.address;
        let log = std::sync::Arc::clone(log);
        let name = format!("verif-{:?}", spec.kind).chars().take(40).collect::<String>();
        let id = PrecompileId::custom(name);
        let pc = match spec.kind.clone() {
            PrecompileKind::Bank => DynParallelPrecompile::new(id, move |input| bank_call(this, &log, false, input)),
            PrecompileKind::Observer => DynParallelPrecompile::new(id, move |input| bank_call(this, &log, true, input)),
            PrecompileKind::StaticMutator => DynParallelPrecompile::new(id, move |input| {
                log.calls.fetch_add(1, Ordering::Relaxed);
                let data = input.data().to_vec();
                let address = addr_at(&data, 1);
                let key = word(&data, 21);
                // Tries to write regardless of the static flag; ignores the facade's refusal.
                let r = input.state().sstore(address, key, U256::from(0xdead));
                if r.is_err() && input.is_static() {
                    log.static_mutations_refused.fetch_add(1, Ordering::Relaxed);
                }
                out(500, U256::from(7), input)
            }),
            PrecompileKind::FaultIgnorer => DynParallelPrecompile::new(id, move |input| {
                log.calls.fetch_add(1, Ordering::Relaxed);
                let data = input.data().to_vec();
                let address = addr_at(&data, 1);
                let key = word(&data, 21);
                let v = match input.state().sload(address, key) {
                    Ok(load) => load.data,
                    Err(_) => {
                        log.ignored_faults.fetch_add(1, Ordering::Relaxed);
                        U256::from(0x1627)
                    }
                };
                out(400, v, input)
            }),
            PrecompileKind::FaultRemapper => DynParallelPrecompile::new(id, move |input| {
                log.calls.fetch_add(1, Ordering::Relaxed);
                let data = input.data().to_vec();
                let op = data.first().copied().unwrap_or(0);
                let address = addr_at(&data, 1);
                let key = word(&data, 21);
                // balance for even ops, sload for odd ones; a facade error becomes a halt of its own
                let r = if op % 2 == 0 { input.state().balance(address) } else { input.state().sload(address, key) };
                match r {
                    Ok(load) => out(400, load.data, input),
                    Err(_) => {
                        log.ignored_faults.fetch_add(1, Ordering::Relaxed);
                        Err(ParallelPrecompileError::Halt(PrecompileHalt::OutOfGas))
                    }
                }
            }),
            PrecompileKind::Halter => DynParallelPrecompile::new(id, move |_input| {
                log.calls.fetch_add(1, Ordering::Relaxed);
                log.halts.fetch_add(1, Ordering::Relaxed);
                Err(ParallelPrecompileError::Halt(PrecompileHalt::OutOfGas))
            }),
            PrecompileKind::FatalIf { addr, slot, value } => DynParallelPrecompile::new(id, move |input| {
                log.calls.fetch_add(1, Ordering::Relaxed);
                let load = input.state().sload(addr, slot)?;
                if load.data == value {
                    log.fatals.fetch_add(1, Ordering::Relaxed);
                    return Err(ParallelPrecompileError::Fatal(PrecompileError::Fatal(format!(
                        "verif fatal precompile: slot holds {value}"
                    ))));
                }
                out(300, load.data, input)
            }),
            PrecompileKind::PanicIf { addr, slot, value } => DynParallelPrecompile::new(id, move |input| {
                log.calls.fetch_add(1, Ordering::Relaxed);
                let load = input.state().sload(addr, slot)?;
                if load.data == value {
                    log.panics.fetch_add(1, Ordering::Relaxed);
                    std::panic::panic_any(PrecompilePanic);
                }
                out(300, load.data, input)
            }),
        };
        v.push((this, pc));
    }
    v
}
