//! C10 (a): sequential history differential between `ParallelState` and revm `State` over the same
//! simulated database: commits of real journal output (segments of generated blocks executed by stock
//! revm on the reference state), `increment_balances`, `drain_balances`, `merge_transitions` with either
//! retention, `take_bundle` / `parallel_take_bundle` on empty and pre-populated bundles, 1-2 blocks,
//! reads at random points. No schedule is involved here (the property quantifies over histories too);
//! the concurrent part of C10 is statecomp.rs and the pipeline read-back.

use crate::batch::CaseRecord;
use crate::checks::Tier;
use crate::compare::diff_bundles;
use crate::oracle::{CaseStats, Finding};
use crate::prng::{Prng, derive};
use crate::reference;
use crate::scenario::Scenario;
use crate::simdb::SimDb;
use crate::workload::{self, GenOptions, Profile};
use grevm::{ParallelState, ParallelTakeBundle};
use revm::{DatabaseCommit, DatabaseRef};
use revm_database::DatabaseCommitExt;
use revm_database::states::bundle_state::BundleRetention;
use revm_primitives::{Address, U256};
use serde_json::json;
use std::sync::Arc;

fn retention(plain: bool) -> BundleRetention {
    if plain { BundleRetention::PlainState } else { BundleRetention::Reverts }
}

pub fn case_record(tier: Tier, seed: u64, idx: u64) -> CaseRecord {
    case_record_with(tier, seed, idx, None).0
}

/// `fixed`: the scenario of a replay file (the generator is then not consulted, so a replay file stays
/// valid when the workload generator changes). Returns the record and the scenario used.
pub fn case_record_with(tier: Tier, seed: u64, idx: u64, fixed: Option<&Scenario>) -> (CaseRecord, Scenario) {
    let mut rng = Prng::new(derive(seed, 0x4157_0000 ^ idx.wrapping_mul(0x9E37)));
    crate::run::reset_hash_seeds(derive(seed, idx));
    let profile = [Profile::Lifecycle, Profile::Lifecycle, Profile::Mixed, Profile::Code, Profile::Beneficiary][rng.below(5) as usize];
    let opts = GenOptions { profile, max_txs: if tier == Tier::Quick { 5 } else { 8 }, max_workers: 1, two_blocks: true, specs: vec![] };
    let gen_seed = derive(seed, 0x4158_0000 ^ idx);
    let mut s: Scenario = workload::generate(gen_seed, &opts);
    s.faults.clear();
    s.precompiles.clear();
    if rng.chance(1, 2) {
        workload::add_second_block(&mut s, gen_seed);
        // a third of the two-block histories go on for a third and (half of those) a fourth block; decided by
        // a value derived from (seed, idx) alone, so the shorter histories are what they were before
        let more = derive(seed, 0x4159_0000 ^ idx);
        if more % 3 == 0 {
            workload::add_later_block(&mut s, gen_seed);
            if (more / 3) % 2 == 0 {
                workload::add_later_block(&mut s, gen_seed);
            }
        }
    }
    if let Some(f) = fixed {
        s = f.clone();
    }
    // A panic inside the history (revm's `unreachable!` on a transition sequence ParallelState should never
    // have produced, a debug assertion, an arithmetic overflow) is a verdict about the history, not a
    // harness crash: the same operations on revm's State are part of every case, so on the unchanged tree
    // no history panics.
    let scenario = s.clone();
    match std::panic::catch_unwind(std::panic::AssertUnwindSafe(move || run_history(tier, seed, idx, s, rng))) {
        Ok(record) => (record, scenario),
        Err(payload) => {
            let msg = payload.downcast_ref::<String>().cloned().or_else(|| payload.downcast_ref::<&str>().map(|m| m.to_string())).unwrap_or_else(|| "non-string panic payload".into());
            let mut stats = CaseStats::default();
            stats.nontrivial = true;
            let finding = Finding { property: "C10", class: "history.panic".into(), detail: format!("the history panicked: {}", msg.chars().take(300).collect::<String>()) };
            (CaseRecord { idx, findings: vec![finding], harness_errors: vec![], stats, sample: None, group: "history-differential" }, scenario)
        }
    }
}

fn run_history(tier: Tier, seed: u64, idx: u64, s: Scenario, mut rng: Prng) -> CaseRecord {
    let _ = (tier, seed);
    let db_r = SimDb::from_scenario(&s, false, false);
    let db_p = Arc::new(SimDb::from_scenario(&s, false, false));
    // one case in eight runs without bundle updates (transitions are not recorded; extraction yields an
    // empty bundle on both sides, reads must still agree)
    let bundle_update = !rng.chance(1, 8);
    let mut r = reference::new_ref_state(&db_r, bundle_update);
    let mut p = ParallelState::new(Arc::clone(&db_p), bundle_update, false);
    let mut findings: Vec<Finding> = Vec::new();
    let mut ops_log: Vec<String> = Vec::new();
    let mut touched: Vec<Address> = s.pre_state.iter().map(|a| a.address).collect();
    touched.push(s.block.beneficiary);
    touched.push(workload::addr(0x9007));
    let mut stats = CaseStats::default();
    let mut behaviour = 0xcbf2_9ce4_8422_2325u64;
    let mut mixb = |v: u64| {
        behaviour ^= v;
        behaviour = behaviour.wrapping_mul(0x0000_0100_0000_01b3);
    };
    let mut fail = |class: &str, detail: String, ops_log: &Vec<String>| {
        if findings.is_empty() {
            findings.push(Finding { property: "C10", class: class.to_string(), detail: format!("{detail}; history: {ops_log:?}") });
        }
    };

    let mut blocks = vec![(s.block.clone(), s.txs.clone())];
    if let Some((b2, t2)) = &s.second {
        blocks.push((b2.clone(), t2.clone()));
    }
    blocks.extend(s.later.iter().cloned());
    let mut commits = 0u64;
    'outer: for (bi, (block, txs)) in blocks.iter().enumerate() {
        // split the block into 1-3 segments with balance operations and reads in between
        let cuts = rng.range(1, 3) as usize;
        let seg_len = txs.len().div_ceil(cuts).max(1);
        for seg in txs.chunks(seg_len) {
            let rb = reference::run_reference_block(&mut r, &s.evm, block, seg, &[], false);
            for raw in rb.raw.iter().flatten() {
                for address in raw.keys() {
                    let _ = p.basic_ref(*address);
                    if !touched.contains(address) {
                        touched.push(*address);
                    }
                }
                p.commit(raw.clone());
                commits += 1;
            }
            ops_log.push(format!(
                "block{bi}:commit[{}]",
                rb.raw
                    .iter()
                    .flatten()
                    .map(|raw| {
                        let mut v: Vec<String> = raw
                            .iter()
                            .filter(|(_, acc)| acc.is_touched())
                            .map(|(a, acc)| {
                                format!(
                                    "{}{}{}",
                                    short(a),
                                    if acc.is_selfdestructed() { "!" } else { "" },
                                    if acc.is_created() { "*" } else { "" }
                                )
                            })
                            .collect();
                        v.sort();
                        v.join(" ")
                    })
                    .collect::<Vec<_>>()
                    .join(" | ")
            ));
            mixb(rb.raw.len() as u64);
            if rb.error.is_some() {
                break 'outer;
            }
            match rng.below(5) {
                0 | 1 => {
                    let n = rng.range(1, 3);
                    let list: Vec<(Address, u128)> =
                        (0..n).map(|_| (touched[rng.below(touched.len() as u64) as usize], if rng.chance(1, 8) { 0 } else { 1 + rng.below(1_000_000) as u128 })).collect();
                    let a = r.increment_balances(list.clone()).is_ok();
                    let b = p.increment_balances(list.clone()).is_ok();
                    ops_log.push(format!("increment_balances({})", list.iter().map(|(a, v)| format!("{}+{v}", short(a))).collect::<Vec<_>>().join(",")));
                    mixb(0x11 + list.len() as u64);
                    if a != b {
                        fail("history.increment_balances", format!("revm State ok={a}, ParallelState ok={b}"), &ops_log);
                    }
                }
                2 => {
                    let n = rng.range(1, 2);
                    let list: Vec<Address> = (0..n).map(|_| touched[rng.below(touched.len() as u64) as usize]).collect();
                    let mut uniq = list.clone();
                    uniq.sort();
                    uniq.dedup();
                    // revm's drain returns u128 and panics (in both implementations) on a larger balance
                    uniq.retain(|a| {
                        revm::Database::basic(&mut r, *a).ok().flatten().is_none_or(|i| i.balance <= U256::from(u128::MAX))
                    });
                    let a = r.drain_balances(uniq.clone()).ok();
                    let b = p.drain_balances(uniq.clone()).ok();
                    ops_log.push(format!("drain_balances({})", uniq.iter().map(short).collect::<Vec<_>>().join(",")));
                    mixb(0x22 + uniq.len() as u64);
                    if a != b {
                        fail("history.drain_balances", format!("revm State returned {a:?}, ParallelState {b:?}"), &ops_log);
                    }
                }
                _ => {}
            }
            // block hashes through the state's database interface: numbers around the served window of
            // this block (consecutive blocks then ask for numbers exactly 256 apart) and a few fixed ones
            for _ in 0..rng.below(3) {
                let n = match rng.below(6) {
                    0 => block.number.saturating_sub(256),
                    1 => block.number.saturating_sub(255),
                    2 => block.number.saturating_sub(1),
                    3 => block.number,
                    4 => 90 + rng.below(10),
                    _ => block.number.saturating_sub(1 + rng.below(300)),
                };
                let x = p.block_hash_ref(n).ok();
                let y = revm::Database::block_hash(&mut r, n).ok();
                ops_log.push(format!("block_hash({n})"));
                if x != y {
                    fail("history.read.block_hash", format!("block_hash({n}): ParallelState {x:?} != revm State {y:?}"), &ops_log);
                }
            }
            // reads at a random point
            for _ in 0..rng.below(4) {
                let a = touched[rng.below(touched.len() as u64) as usize];
                let x = p.basic_ref(a).ok().flatten().map(|i| (i.balance, i.nonce, i.code_hash));
                let y = revm::Database::basic(&mut r, a).ok().flatten().map(|i| (i.balance, i.nonce, i.code_hash));
                if x != y {
                    fail("history.read.basic", format!("basic({a}): ParallelState {x:?} != revm State {y:?}"), &ops_log);
                }
                let k = U256::from(rng.below(4));
                let x = p.storage_ref(a, k).ok();
                let y = revm::Database::storage(&mut r, a, k).ok();
                if x != y {
                    fail("history.read.storage", format!("storage({a},{k}): ParallelState {x:?} != revm State {y:?}"), &ops_log);
                }
            }
        }
        let plain = rng.chance(1, 4);
        r.merge_transitions(retention(plain));
        p.merge_transitions(retention(plain));
        ops_log.push(format!("merge_transitions(plain={plain})"));
        mixb(0x33 + plain as u64);
        if rng.chance(1, 3) {
            // extract mid-way: the next extraction then starts from an empty bundle
            // `parallel_take_bundle` is "merge what is pending, then take": its revm counterpart is a
            // second (empty) merge followed by `take_bundle`
            let bp = if rng.chance(1, 2) {
                ops_log.push("take_bundle".into());
                p.take_bundle()
            } else {
                ops_log.push("parallel_take_bundle(after merge)".into());
                r.merge_transitions(retention(plain));
                p.parallel_take_bundle(retention(plain))
            };
            let br = r.take_bundle();
            mixb(0x44);
            if let Some(d) = diff_bundles(&bp, &br) {
                fail("history.bundle", d, &ops_log);
            }
        }
    }
    // final extraction: transitions committed after the last merge go through parallel_take_bundle
    let plain = rng.chance(1, 4);
    r.merge_transitions(retention(plain));
    let br = r.take_bundle();
    let bp = p.parallel_take_bundle(retention(plain));
    ops_log.push(format!("parallel_take_bundle(plain={plain})"));
    if let Some(d) = diff_bundles(&bp, &br) {
        fail("history.bundle", d, &ops_log);
    }
    // a second extraction right away must be empty on both sides
    let bp2 = if rng.chance(1, 2) {
        // `parallel_take_bundle` = merge what is pending (nothing), then take
        r.merge_transitions(retention(plain));
        p.parallel_take_bundle(retention(plain))
    } else {
        p.take_bundle()
    };
    let br2 = r.take_bundle();
    ops_log.push("second extraction".into());
    if let Some(d) = diff_bundles(&bp2, &br2) {
        fail("history.bundle", format!("second extraction: {d}"), &ops_log);
    }
    for a in touched.clone() {
        let x = p.basic_ref(a).ok().flatten().map(|i| (i.balance, i.nonce, i.code_hash));
        let y = revm::Database::basic(&mut r, a).ok().flatten().map(|i| (i.balance, i.nonce, i.code_hash));
        if x != y {
            fail("history.read.basic", format!("final basic({a}): ParallelState {x:?} != revm State {y:?}"), &ops_log);
        }
        for k in [0u64, 1, 2, 100, 101] {
            let k = U256::from(k);
            let x = p.storage_ref(a, k).ok();
            let y = revm::Database::storage(&mut r, a, k).ok();
            if x != y {
                fail("history.read.storage", format!("final storage({a},{k}): ParallelState {x:?} != revm State {y:?}"), &ops_log);
            }
        }
    }
    stats.completed = true;
    stats.behaviour = behaviour;
    stats.nontrivial = ops_log.len() > 3;
    stats.txs = commits as usize;
    stats.workload = vec![("probe.history_commits", commits), ("probe.history_operations", ops_log.len() as u64)];
    if blocks.len() > 2 {
        stats.workload.push(("probe.history_three_or_more_blocks", 1));
    }
    let sample = (idx < 2).then(|| json!({"component": "history-differential", "profile": s.profile, "operations": ops_log}));
    CaseRecord { idx, findings, harness_errors: vec![], stats, sample, group: "history-differential" }
}

fn short(a: &Address) -> String {
    let h = format!("{a:x}");
    h.trim_start_matches('0').to_string()
}
