use std::path::PathBuf;

/// /verif (the directory that contains `sim/`), derived from the crate location at build time.
pub fn verif_root() -> PathBuf {
    PathBuf::from(env!("CARGO_MANIFEST_DIR")).parent().unwrap().to_path_buf()
}
