//! Replay files: property, violation class, check id, seed, the EXPLICIT scenario and scheduler
//! specification, and the decision trace. Self-contained: replay does not depend on the generator.

use crate::scenario::{Scenario, SchedSpec};
use crate::simsched::Trace;
use serde_json::{Value, json};
use std::path::{Path, PathBuf};

pub struct ReplayFile {
    pub check: String,
    pub property: String,
    pub class: String,
    pub detail: String,
    pub seed: u64,
    pub case_index: u64,
    pub scenario: Scenario,
    pub sched: SchedSpec,
    pub trace: Trace,
    /// free-form extra payload for component checks
    pub extra: Value,
}

impl ReplayFile {
    pub fn to_json(&self) -> Value {
        json!({
            "format": "grevm-verif-replay-v1",
            "check": self.check,
            "property": self.property,
            "class": self.class,
            "detail": self.detail,
            "seed": self.seed.to_string(),
            "case_index": self.case_index,
            "scenario": self.scenario.to_json(),
            "sched": self.sched.to_json(),
            "trace": {
                "tasks": self.trace.tasks,
                "randoms": self.trace.randoms.iter().map(|r| r.to_string()).collect::<Vec<_>>(),
            },
            "extra": self.extra,
        })
    }

    pub fn from_json(v: &Value) -> Self {
        Self {
            check: v["check"].as_str().unwrap().to_string(),
            property: v["property"].as_str().unwrap().to_string(),
            class: v["class"].as_str().unwrap().to_string(),
            detail: v["detail"].as_str().unwrap_or("").to_string(),
            seed: v["seed"].as_str().unwrap().parse().unwrap(),
            case_index: v["case_index"].as_u64().unwrap_or(0),
            scenario: Scenario::from_json(&v["scenario"]),
            sched: SchedSpec::from_json(&v["sched"]),
            trace: Trace {
                tasks: v["trace"]["tasks"].as_array().unwrap().iter().map(|x| x.as_u64().unwrap() as u32).collect(),
                randoms: v["trace"]["randoms"].as_array().unwrap().iter().map(|x| x.as_str().unwrap().parse().unwrap()).collect(),
            },
            extra: v["extra"].clone(),
        }
    }

    pub fn write(&self) -> PathBuf {
        let dir = crate::paths::verif_root().join("replays");
        let _ = std::fs::create_dir_all(&dir);
        let text = serde_json::to_string_pretty(&self.to_json()).unwrap();
        let mut h = 0xcbf2_9ce4_8422_2325u64;
        for b in text.as_bytes() {
            h ^= *b as u64;
            h = h.wrapping_mul(0x0000_0100_0000_01b3);
        }
        let path = dir.join(format!("{}-{}-{:08x}.json", self.property, self.seed, (h >> 32) as u32));
        std::fs::write(&path, text).expect("write replay file");
        path
    }

    pub fn read(path: &Path) -> Self {
        let text = std::fs::read_to_string(path).unwrap_or_else(|e| panic!("cannot read {}: {e}", path.display()));
        Self::from_json(&serde_json::from_str(&text).expect("replay file is JSON"))
    }
}
