//! Check registry: for every claimed property, how cases are planned (profile, swarm knobs, scheduler
//! strategy), which finding classes belong to the property, and how a batch is reported.

use crate::batch::{self, CaseRecord, EvidenceMeta};
use crate::faultgen;
use crate::known::{self, Known};
use crate::minimise;
use crate::oracle::{self, CaseOutput, Finding, PipelineWant};
use crate::prng::{Prng, derive};
use crate::replayfile::ReplayFile;
use crate::scenario::{Entry, Scenario, SchedSpec};
use crate::simsched::{STRAT_PAUSE, STRAT_PCT, STRAT_STARVE, STRAT_STICKY, STRAT_TXWINDOW, STRAT_UNIFORM, STRAT_WINDOW, Trace};
use crate::workload::{self, GenOptions, Profile};
use serde_json::{Value, json};
use std::path::Path;
use std::sync::Arc;
use std::time::{Duration, Instant};

#[derive(Clone, Copy, Debug, PartialEq, Eq)]
pub enum Tier {
    Quick,
    Thorough,
}

impl Tier {
    pub fn name(self) -> &'static str {
        match self {
            Tier::Quick => "quick",
            Tier::Thorough => "thorough",
        }
    }
}

pub const DEFAULT_SEED: u64 = 20260923;
pub const N1: u64 = 60_000;
pub const N2: u64 = 120_000;

pub fn jobs() -> usize {
    std::env::var("VERIF_JOBS").ok().and_then(|s| s.parse().ok()).unwrap_or(16)
}

#[derive(Clone, Copy, Debug, PartialEq, Eq)]
pub enum SchedMode {
    /// swarm over strict / spurious wake-ups / buggify
    Any,
    /// strict only: a parked task is never woken without an unpark
    Strict,
}

/// Swarm: one strategy and its knobs per run, all derived from (seed, idx).
pub fn sched_for(seed: u64, idx: u64, mode: SchedMode) -> SchedSpec {
    let case_seed = derive(seed, 0x5ced_0000 ^ idx);
    let mut rng = Prng::new(derive(case_seed, 1));
    let strategy = [STRAT_UNIFORM, STRAT_STICKY, STRAT_PCT, STRAT_STARVE, STRAT_PAUSE, STRAT_WINDOW, STRAT_TXWINDOW][rng.pick_weighted(&[8, 10, 7, 15, 15, 20, 25])];
    let (p1, p2, p3) = match strategy {
        STRAT_STICKY => (*rng.pick(&[512u32, 800, 960, 1000]), 0, 0),
        STRAT_PCT => (rng.range(1, 6) as u32, *rng.pick(&[300u32, 1000, 3000]), 0),
        STRAT_STARVE => (
            // victim: a role (finality 2, commit 3, all workers 4, caller 1) or ONE task (16 + task id:
            // 1 finality, 2 commit, 3.. workers)
            *rng.pick(&[2u32, 3, 4, 1, 17, 18, 19, 19, 20, 20, 21, 22]),
            rng.below(2500) as u32,
            *rng.pick(&[50u32, 300, 2000, 10_000]),
        ),
        STRAT_PAUSE => (
            *rng.pick(&[16u32, 32, 64, 128, 256]),
            *rng.pick(&[100u32, 500, 2000, 8000]),
            *rng.pick(&[1024u32, 512, 128, 32]),
        ),
        STRAT_WINDOW => (
            *rng.pick(&[1u32, 2, 3, 4, 5]),
            *rng.pick(&[100u32, 500, 2000, 8000]),
            *rng.pick(&[1024u32, 1024, 512, 128]),
        ),
        STRAT_TXWINDOW => (*rng.pick(&[1u32, 1, 2, 2, 3]), *rng.pick(&[200u32, 1000, 4000, 12000]), 1024),
        _ => (0, 0, 0),
    };
    let strict = mode == SchedMode::Strict || rng.chance(6, 10);
    SchedSpec {
        seed: case_seed,
        strategy,
        p1,
        p2,
        p3,
        strict,
        spurious_per_1024: if strict { 0 } else { *rng.pick(&[4u32, 32, 128]) },
        buggify: if rng.chance(1, 4) { grevm::verif::rt::BUG_CAS_WEAK_SPURIOUS } else { 0 },
        n1: N1,
        n2: N2,
    }
}

pub struct Plan {
    pub scenario: Arc<Scenario>,
    pub sched: SchedSpec,
    pub group: &'static str,
    pub want: PipelineWant,
}

fn gen_opts(profile: Profile, tier: Tier) -> GenOptions {
    GenOptions {
        profile,
        max_txs: if tier == Tier::Quick { 5 } else { 8 },
        max_workers: if tier == Tier::Quick { 4 } else { 8 },
        two_blocks: true,
        specs: vec![],
    }
}

pub const PIPELINE_CHECKS: &[&str] = &["C01", "C02", "C03", "C04", "C05", "C06", "C07", "C08", "C09", "C10", "C11", "C13", "C14"];
/// checks whose replay files may also be pipeline files (their pipeline part)
pub const MIXED_CHECKS: &[&str] = &["C15", "C16", "C17"];

/// Dispatch a case to the oracle of its check.
pub fn evaluate_case(check: &str, scenario: &Arc<Scenario>, sched: &SchedSpec, trace: Option<Trace>, want: &PipelineWant) -> CaseOutput {
    match check {
        "C06" => oracle::run_relation_case(scenario, sched, trace, want),
        // With a delegated-safety policy on, stock revm is no reference: path agreement and the
        // fundability invariant decide; with the policies off the block is tied to stock revm.
        "C13" => {
            let prague = scenario.evm.spec >= revm_primitives::hardfork::SpecId::PRAGUE;
            let guard = scenario.grevm.forbid_delegated_create && prague;
            let reserve = scenario.grevm.reserve_delegated_balance && prague;
            if guard || reserve {
                // the independent rule model as reference (outcomes, per-commit deltas, bundle), then
                // path agreement and the fundability invariant
                let mut a = oracle::run_pipeline_case(scenario, sched, trace.clone(), want);
                let b = oracle::run_relation_case(scenario, sched, trace, want);
                a.findings.extend(b.findings);
                a.stats.decisions += b.stats.decisions;
                a.stats.steps += b.stats.steps;
                a.stats.context_switches += b.stats.context_switches;
                a.stats.preemptions += b.stats.preemptions;
                a.stats.nontrivial |= b.stats.nontrivial;
                a
            } else {
                oracle::run_pipeline_case(scenario, sched, trace, want)
            }
        }
        _ => oracle::run_pipeline_case(scenario, sched, trace, want),
    }
}

/// Plan case `idx` of a pipeline check.
pub fn plan_pipeline_case(check: &str, tier: Tier, seed: u64, idx: u64) -> Plan {
    let mut rng = Prng::new(derive(seed, 0xca5e_0000 ^ idx.wrapping_mul(0x9E37)));
    let gen_seed = derive(seed, 0x6e6e_0000 ^ idx);
    let (profile, mode): (Profile, SchedMode) = match check {
        "C01" => ([Profile::Mixed, Profile::Mixed, Profile::Conflict, Profile::Lifecycle, Profile::Code, Profile::Beneficiary][rng.below(6) as usize], SchedMode::Any),
        "C02" => ([Profile::Conflict, Profile::Conflict, Profile::Conflict, Profile::Mixed, Profile::Mixed, Profile::Beneficiary, Profile::Beneficiary, Profile::Code, Profile::Invalid, Profile::Lifecycle][rng.below(10) as usize], SchedMode::Any),
        "C03" => ([Profile::Invalid, Profile::Invalid, Profile::Invalid, Profile::Code][rng.below(4) as usize], SchedMode::Any),
        "C04" => ([Profile::Mixed, Profile::Conflict, Profile::Invalid, Profile::Precompile][rng.below(4) as usize], SchedMode::Any),
        "C05" => (
            [Profile::Mixed, Profile::Conflict, Profile::Invalid, Profile::Beneficiary, Profile::Lifecycle, Profile::Precompile][rng.below(6) as usize],
            SchedMode::Strict,
        ),
        "C06" => (
            [Profile::Mixed, Profile::Conflict, Profile::Invalid, Profile::Beneficiary, Profile::Lifecycle, Profile::Code, Profile::Reserve, Profile::Precompile][rng.below(8) as usize],
            SchedMode::Any,
        ),
        "C07" => (Profile::Beneficiary, SchedMode::Any),
        "C08" => (Profile::Lifecycle, SchedMode::Any),
        "C09" => (Profile::Code, SchedMode::Any),
        "C10" => ([Profile::Lifecycle, Profile::Mixed, Profile::Code, Profile::Conflict][rng.below(4) as usize], SchedMode::Any),
        "C11" => (Profile::Precompile, SchedMode::Any),
        "C13" => (Profile::Reserve, SchedMode::Any),
        "C14" => ([Profile::Mixed, Profile::Conflict, Profile::Invalid, Profile::Beneficiary][rng.below(4) as usize], SchedMode::Any),
        "C15" => ([Profile::Conflict, Profile::Conflict, Profile::Mixed][rng.below(3) as usize], SchedMode::Any),
        "C16" | "C17" => ([Profile::Conflict, Profile::Mixed, Profile::Invalid, Profile::Beneficiary][rng.below(4) as usize], SchedMode::Strict),
        other => panic!("not a pipeline check: {other}"),
    };
    // C04, odd cases: systematic enumeration. Consecutive cases share one block (generated from the block
    // number, not the case index) and walk through its fault plans: every key the reference reads, every
    // key only a stale attempt reads, the fee recipient x persistent / fail-once / fail-at-second-call.
    let enum_slots: u64 = if tier == Tier::Quick { 24 } else { 64 };
    let c04_enum = check == "C04" && idx % 2 == 1;
    let (gen_seed, profile) = if c04_enum {
        let block_no = (idx / 2) / enum_slots;
        let mut brng = Prng::new(derive(seed, 0xe4e4_0000 ^ block_no));
        (derive(seed, 0xe4e5_0000 ^ block_no), [Profile::Mixed, Profile::Conflict, Profile::Invalid, Profile::Precompile][brng.below(4) as usize])
    } else {
        (gen_seed, profile)
    };
    // One case in 32 is a LARGE block (up to 12 transactions quick / 20 thorough, up to 8 workers): longer
    // dependency chains, several finality batches, more overlapping rewinds. Decided by a value derived
    // from (seed, idx) alone so that every other case is exactly what it was before this was added.
    // VERIF_LARGE=<n> (scratch runs only) makes it one case in n.
    let large_every = std::env::var("VERIF_LARGE").ok().and_then(|v| v.parse::<u64>().ok()).unwrap_or(32).max(1);
    let large = !c04_enum && derive(seed, 0xb16b_0000 ^ idx) % large_every == 0;
    let mut opts = gen_opts(profile, tier);
    if large {
        opts.max_txs = if tier == Tier::Quick { 12 } else { 20 };
        opts.max_workers = 8;
    }
    let mut scenario = workload::generate(gen_seed, &opts);
    let mut want = PipelineWant::default();
    let mut group = profile.name();
    match check {
        "C04" if c04_enum => {
            let plans = faultgen::enumerate_plans(&scenario);
            let slot = ((idx / 2) % enum_slots) as usize;
            let (key, mode, origin) = plans[slot % plans.len()].clone();
            group = match (&mode, origin) {
                (crate::scenario::FaultMode::Persistent, "stale-only-key") => "enumerated/persistent/stale-only-key",
                (crate::scenario::FaultMode::Persistent, "beneficiary-key") => "enumerated/persistent/beneficiary-key",
                (crate::scenario::FaultMode::Persistent, _) => "enumerated/persistent/reference-key",
                (_, "stale-only-key") => "enumerated/transient/stale-only-key",
                _ => "enumerated/transient",
            };
            scenario.faults.push(crate::scenario::FaultRule { key, mode, action: crate::scenario::FaultAction::Error, roles: 0 });
            scenario.warm_cache = false;
        }
        "C04" => {
            group = faultgen::add_error_faults(&mut scenario, &mut rng);
        }
        "C16" | "C17" => {
            if rng.chance(1, 3) {
                group = faultgen::add_error_faults(&mut scenario, &mut rng);
            }
        }
        "C05" => {
            // a third of the strict runs carry a panic fault or an error fault
            match rng.below(6) {
                0 | 1 => group = faultgen::add_panic_fault(&mut scenario, &mut rng),
                2 => group = faultgen::add_error_faults(&mut scenario, &mut rng),
                _ => {}
            }
        }
        "C06" => {
            // all four delegated-safety policy combinations; a quarter of the runs on a faulty database
            if scenario.evm.spec >= revm_primitives::hardfork::SpecId::PRAGUE || rng.chance(1, 4) {
                scenario.grevm.forbid_delegated_create = rng.chance(1, 2);
                scenario.grevm.reserve_delegated_balance = rng.chance(1, 2);
            }
            scenario.grevm.min_parallel_txs = 0;
            if rng.chance(1, 4) {
                let mut only_persistent = Prng::new(rng.next_u64());
                let before = scenario.faults.len();
                group = faultgen::add_error_faults(&mut scenario, &mut only_persistent);
                for f in scenario.faults.iter_mut().skip(before) {
                    f.mode = crate::scenario::FaultMode::Persistent;
                }
                scenario.faults.retain(|f| !matches!(f.key, crate::scenario::FaultKey::Any));
                if group.starts_with("transient") {
                    group = "persistent-fault/reference-key";
                }
            }
        }
        "C14" => {
            // 1-3 callers, 1-2 calls each (at least two calls in total); empty and non-empty blocks;
            // parallel and sequential paths
            if rng.chance(1, 8) {
                scenario.txs.clear();
            }
            let entry = |rng: &mut Prng| match rng.below(4) {
                0 | 1 => Entry::Execute,
                2 => Entry::ParallelExecute(1 + rng.below(3) as usize),
                _ => Entry::FallbackSequential,
            };
            let n_callers = rng.range(1, 3) as usize;
            let mut callers: Vec<Vec<Entry>> = (0..n_callers).map(|_| (0..rng.range(1, 2)).map(|_| entry(&mut rng)).collect()).collect();
            if callers.iter().map(|c| c.len()).sum::<usize>() < 2 {
                callers[0].push(entry(&mut rng));
            }
            group = if n_callers == 1 { "successive-calls" } else { "concurrent-callers" };
            scenario.callers = callers;
            if rng.chance(1, 4) {
                scenario.grevm.min_parallel_txs = scenario.txs.len() + 1;
            }
            // a third of the cases on a persistently faulty database: the elected call may FAIL (on either
            // path, at any index) and every other call must still be rejected - a failed run is a run
            if rng.chance(1, 3) {
                let mut sub = Prng::new(rng.next_u64());
                let before = scenario.faults.len();
                let _ = faultgen::add_error_faults(&mut scenario, &mut sub);
                for f in scenario.faults.iter_mut().skip(before) {
                    f.mode = crate::scenario::FaultMode::Persistent;
                }
                scenario.faults.retain(|f| !matches!(f.key, crate::scenario::FaultKey::Any));
                group = if n_callers == 1 { "successive-calls/faulty-db" } else { "concurrent-callers/faulty-db" };
            }
        }
        "C11" => {
            if rng.chance(1, 4) {
                let mut sub = Prng::new(rng.next_u64());
                let before = scenario.faults.len();
                let _ = faultgen::add_error_faults(&mut scenario, &mut sub);
                for f in scenario.faults.iter_mut().skip(before) {
                    f.mode = crate::scenario::FaultMode::Persistent;
                }
                scenario.faults.retain(|f| !matches!(f.key, crate::scenario::FaultKey::Any));
                group = "precompile/persistent-fault";
            }
        }
        "C08" => {
            // a quarter of the life-cycle blocks are followed by a second block on the same state (what was
            // destroyed / re-created in block 1 is touched, read or re-created again in block 2)
            if rng.chance(1, 4) {
                scenario.warm_cache = false;
                workload::add_second_block(&mut scenario, gen_seed);
                group = "two-blocks";
            }
        }
        "C10" => {
            // cold cache so that speculative readers race commits inside the cache-filling reads;
            // half of the runs execute a second block on the state the first one left behind
            scenario.warm_cache = false;
            if rng.chance(1, 2) {
                workload::add_second_block(&mut scenario, gen_seed);
                group = "two-blocks";
            }
            if rng.chance(1, 4) {
                want.plain_state = true;
            }
        }
        _ => {}
    }
    if scenario.grevm.min_parallel_txs > scenario.txs.len() && check != "C06" && check != "C14" && rng.chance(7, 8) {
        // keep most runs on the parallel path
        scenario.grevm.min_parallel_txs = 0;
    }
    let sched = sched_for(seed, idx, mode);
    Plan { scenario: Arc::new(scenario), sched, group, want }
}

/// Which findings belong to the property of `check`; profile checks re-tag pipeline divergences as
/// their own property (the profile is built so that divergences there concern that mechanism).
pub fn filter_findings(check: &str, findings: Vec<Finding>) -> (Vec<Finding>, Vec<String>) {
    let mut mine = Vec::new();
    let mut harness = Vec::new();
    for f in findings {
        if f.property == "HARNESS" {
            harness.push(f.detail);
            continue;
        }
        let keep: Option<&'static str> = match check {
            "C01" => (f.property == "C01" || (f.property == "C03" && f.class == "outcomes")).then_some("C01"),
            // committing a transaction in-order validation rejects (or skipping one it accepts) is a wrong
            // commit as well
            "C02" => (f.property == "C02" || (f.property == "C03" && f.class.starts_with("commit."))).then_some("C02"),
            "C03" => matches!(f.property, "C03" | "C01" | "C02").then_some("C03"),
            "C04" => (f.property == "C04" || f.property == "C02").then_some("C04"),
            "C05" => (f.property == "C05").then_some("C05"),
            "C06" => matches!(f.property, "C06" | "C13").then_some("C06"),
            "C07" => matches!(f.property, "C01" | "C02" | "C03").then_some("C07"),
            "C08" => (matches!(f.property, "C01" | "C02" | "C03") || (f.property == "C10" && (f.class.starts_with("second_block") || f.class.starts_with("readback")))).then_some("C08"),
            "C09" => matches!(f.property, "C01" | "C02" | "C03").then_some("C09"),
            "C10" => (f.property == "C10").then_some("C10"),
            "C11" => matches!(f.property, "C01" | "C02" | "C03" | "C04" | "C11").then_some("C11"),
            "C13" => matches!(f.property, "C01" | "C02" | "C03" | "C06" | "C13").then_some("C13"),
            "C14" => matches!(f.property, "C14" | "C01" | "C02" | "C03" | "C04").then_some("C14"),
            "C15" => (f.property == "C15").then_some("C15"),
            // a stall of the strict-mode pipeline (progress possible only through a stall timer) is a lost
            // re-offer (C16) or a lost notification (C17); both checks listen to it
            "C16" => (f.property == "C05" && (f.class == "deadlock" || f.class == "livelock")).then_some("C16"),
            "C17" => (f.property == "C05" && (f.class == "deadlock" || f.class == "livelock")).then_some("C17"),
            _ => None,
        };
        if let Some(p) = keep {
            mine.push(Finding { property: p, ..f });
        }
    }
    (mine, harness)
}

fn sample_of(plan: &Plan, out: &CaseOutput) -> Value {
    let s = &plan.scenario;
    json!({
        "profile": s.profile,
        "spec": crate::scenario::spec_name(s.evm.spec),
        "txs": s.txs.iter().map(|t| t.label.clone()).collect::<Vec<_>>(),
        "workers": s.grevm.concurrency,
        "min_parallel_txs": s.grevm.min_parallel_txs,
        "disable_nonce_check": s.evm.disable_nonce_check,
        "warm_cache": s.warm_cache,
        "faults": s.faults.iter().map(|f| f.to_json()).collect::<Vec<_>>(),
        "strategy": plan.sched.strategy,
        "strict": plan.sched.strict,
        "decisions": out.stats.decisions,
        "result": out.summary,
    })
}

pub fn pipeline_case_record(check: &str, tier: Tier, seed: u64, idx: u64) -> CaseRecord {
    let plan = plan_pipeline_case(check, tier, seed, idx);
    let mut out = evaluate_case(check, &plan.scenario, &plan.sched, None, &plan.want);
    if check == "C14" {
        out.findings.extend(oracle::fresh_scheduler_check(&plan.scenario));
    }
    let sample = (idx < 3).then(|| sample_of(&plan, &out));
    let (findings, harness_errors) = filter_findings(check, out.findings);
    CaseRecord { idx, findings, harness_errors, stats: out.stats, sample, group: plan.group }
}

pub struct CheckSpec {
    pub id: &'static str,
    pub runs_quick: u64,
    pub runs_thorough: u64,
    pub level: &'static str,
    pub rule: &'static str,
}

pub fn check_spec(id: &str) -> CheckSpec {
    let rule_pipeline = "cases = seeded (block, pre-state, config, fault plan, schedule) tuples run through the real pipeline under the simulator; a case is non-trivial if it had a re-execution, validation conflict, erroring attempt, sequential fallback, fired fault or did not complete; distinct = distinct abstract behaviour (per-tx #incarnations and #validations, abort kinds, fallback start, #commits) among non-trivial cases";
    match id {
        "C01" => CheckSpec { id: "C01", runs_quick: 300_000, runs_thorough: 6_000_000, level: "exploration", rule: rule_pipeline },
        "C02" => CheckSpec { id: "C02", runs_quick: 300_000, runs_thorough: 6_000_000, level: "exploration", rule: rule_pipeline },
        "C03" => CheckSpec { id: "C03", runs_quick: 300_000, runs_thorough: 6_000_000, level: "exploration", rule: rule_pipeline },
        "C04" => CheckSpec { id: "C04", runs_quick: 250_000, runs_thorough: 5_000_000, level: "fault_enumeration", rule: "cases = (even indices) seeded (block, pre-state, config, fault plan, schedule) tuples with 1-2 random error rules; (odd indices) systematic enumeration: consecutive cases share one generated block and walk through its fault plans in a fixed order - every database key the in-order reference reads (account, slot, code hash, block hash), every key only a stale attempt reads (reference with one predecessor removed), the fee recipient, crossed with persistent / fail-once / fail-at-second-call - 24 plans per block in the quick tier, 64 in the thorough tier, each under its own seeded schedule (see reach.case_groups for the split); all run through the real pipeline under the simulator; a case is non-trivial if it had a re-execution, validation conflict, erroring attempt, sequential fallback, fired fault or did not complete; distinct = distinct abstract behaviour (per-tx #incarnations and #validations, abort kinds, fallback start, #commits) among non-trivial cases" },
        "C06" => CheckSpec { id: "C06", runs_quick: 120_000, runs_thorough: 3_000_000, level: "exploration", rule: "cases = seeded blocks (all profiles, all four delegated-safety policy combinations, a quarter on a persistently faulty database), each executed five ways: simulated parallel run, simulated parallel run with another worker count and schedule, min_parallel_txs above the block size, force_sequential, fallback_sequential() entry; non-trivial = a re-execution, erroring attempt, fallback or error result; distinct = distinct abstract behaviour" },
        "C05" => CheckSpec { id: "C05", runs_quick: 300_000, runs_thorough: 6_000_000, level: "exploration", rule: rule_pipeline },
        "C07" => CheckSpec { id: "C07", runs_quick: 250_000, runs_thorough: 5_000_000, level: "exploration", rule: "cases = (group beneficiary) seeded (block, pre-state, config, schedule) tuples of the beneficiary profile run through the real pipeline under the simulator, plus (group beneficiary-history) seeded scenarios of the production beneficiary history under 2-3 concurrent tasks (record / estimate / invalidate with rising, stale and duplicate incarnations; resolve / validate), checked against an exact sequential entry model and the scan-timeline oracle; a pipeline case is non-trivial if it had a re-execution, validation conflict, erroring attempt or sequential fallback, a component case if some read overlapped a mutation; distinct = distinct abstract behaviour (pipeline: per-tx #incarnations / #validations / aborts; component: digest of read intervals and quiescent validation results) among non-trivial cases" },
        "C08" => CheckSpec { id: "C08", runs_quick: 250_000, runs_thorough: 5_000_000, level: "exploration", rule: rule_pipeline },
        "C09" => CheckSpec { id: "C09", runs_quick: 250_000, runs_thorough: 5_000_000, level: "exploration", rule: rule_pipeline },
        "C10" => CheckSpec { id: "C10", runs_quick: 250_000, runs_thorough: 5_000_000, level: "exploration", rule: "cases = three families (see reach.case_groups): pipeline runs on a cold cache with read-back of every key the reference touched (half of them two consecutive blocks on one state); state-readers: 1-3 reader tasks against an in-order committer on the production split views, history = real journal output; history-differential: sequential operation histories (commits, balance increments / drains, merges, extractions, account / slot / block-hash reads) applied to ParallelState and revm State alike; non-trivial = pipeline: re-execution / conflict / fallback, state-readers: some read overlapped a commit, history: more than three operations; distinct = distinct abstract behaviour digest of the family among non-trivial cases" },
        "C11" => CheckSpec { id: "C11", runs_quick: 250_000, runs_thorough: 5_000_000, level: "exploration", rule: rule_pipeline },
        "C14" => CheckSpec { id: "C14", runs_quick: 250_000, runs_thorough: 5_000_000, level: "exploration", rule: rule_pipeline },
        "C13" => CheckSpec { id: "C13", runs_quick: 160_000, runs_thorough: 5_000_000, level: "exploration", rule: "cases = seeded blocks of the reserve profile; with a delegated-safety policy on (reserve, CREATE guard or both; Prague+) a case is one simulated parallel run checked against the independent rule model (outcomes, every commit, bundle; the model carries the reserve rule and the guard) plus five further runs for path agreement (other worker count, threshold path, force_sequential, fallback entry) and the fundability invariant; policy off or pre-Prague one simulated run against stock revm; non-trivial = re-execution, erroring attempt, fallback or error result; distinct = distinct abstract behaviour among non-trivial cases (probe.reserve_model_* counters report how many blocks / debit transactions / charged reverts the model decided)" },
        other => panic!("unknown check {other}"),
    }
}

pub fn runs_for(spec: &CheckSpec, tier: Tier) -> u64 {
    let base = if tier == Tier::Quick { spec.runs_quick } else { spec.runs_thorough };
    std::env::var("VERIF_RUNS").ok().and_then(|s| s.parse().ok()).unwrap_or(base)
}

pub const REAL: &[&str] = &[
    "all of /repo/src (scheduler, cursors, dependency graph, MV memory, IncarnationDb, ParallelState, ordered commit, fallback, bundle)",
    "revm / alloy-evm execution",
    "DashMap (operations atomic under the simulator)",
    "rayon bundle extraction (outside the controlled schedule)",
];
pub const REPLACED: &[&str] = &[
    "std::thread scope/spawn/join/park/unpark/yield -> shuttle-engine tasks (harness shim)",
    "parking_lot Mutex/RwLock -> harness shim on engine block/unblock",
    "std atomics -> std atomics preceded by a schedule point (sequentially consistent)",
    "ahash random keys -> fixed keys",
];
pub const STUBBED: &[&str] = &["backing database (SimDb)", "custom precompiles (harness implementations)"];

/// Evaluate a replay file with the oracle of its check. Returns the findings of the file's property.
pub fn evaluate_replay(file: &ReplayFile, use_trace: bool) -> (Vec<Finding>, Vec<String>, CaseOutput) {
    let scenario = Arc::new(file.scenario.clone());
    let mut want = PipelineWant::default();
    if let Some(r) = file.extra.get("retention").and_then(|v| v.as_str()) &&
        r == "plain"
    {
        want.plain_state = true;
    }
    let trace = use_trace.then(|| file.trace.clone());
    let out = evaluate_case(&file.check, &scenario, &file.sched, trace, &want);
    let (mine, harness) = filter_findings(&file.check, out.findings.clone());
    (mine, harness, out)
}

fn spawn_replay(path: &Path) -> Option<(i32, String)> {
    let exe = std::env::current_exe().ok()?;
    let output = std::process::Command::new(exe).arg("replay").arg(path).output().ok()?;
    Some((output.status.code().unwrap_or(-1), String::from_utf8_lossy(&output.stdout).to_string()))
}

/// Batch + minimisation + replay verification + known-findings matching for the pipeline cases of a
/// check. Returns (aggregate, wall seconds, violations printed, known hits, exit code).
pub fn run_pipeline_part(check: &str, tier: Tier, seed: u64, runs: u64) -> (batch::Aggregate, f64, u64, u64, i32) {
    let case = |idx: u64| pipeline_case_record(check, tier, seed, idx);
    let max_finding_cases = std::env::var("VERIF_MAX_FINDING_CASES").ok().and_then(|s| s.parse().ok()).unwrap_or(4usize);
    let (agg, wall) = batch::run_batch(runs, jobs(), max_finding_cases, None, &case);

    let known = known::load();
    let mut violations = 0u64;
    let mut known_hits = 0u64;
    let mut exit = 0;
    if !agg.harness_errors.is_empty() {
        for (idx, e) in &agg.harness_errors {
            println!("HARNESS-ERROR check={check} case={idx}: {e}");
        }
        exit = 2;
    }
    // one report per distinct (class) among the collected findings
    let mut seen_classes: Vec<String> = Vec::new();
    for (idx, f) in &agg.findings {
        if seen_classes.contains(&f.class) {
            continue;
        }
        seen_classes.push(f.class.clone());
        let plan = plan_pipeline_case(check, tier, seed, *idx);
        let deadline = Instant::now() + Duration::from_secs(if tier == Tier::Quick { 40 } else { 180 });
        let file = minimise::minimise_pipeline(check, seed, *idx, &plan, f, deadline);
        let path = file.write();
        // The minimised file must reproduce in a fresh process.
        let reproduced = match spawn_replay(&path) {
            Some((code, stdout)) => code == 1 && stdout.contains(&format!("class={}", file.class)),
            None => false,
        };
        if !reproduced {
            println!("HARNESS-ERROR check={check} case={idx}: finding {} did not reproduce from {}", f.class, path.display());
            exit = 2;
            continue;
        }
        if let Some(k) = known.iter().find(|k| k.matches(&file)) &&
            k.status == "known"
        {
            println!("KNOWN-FINDING: property={} {} (class={}, replay={})", k.property, k.what, file.class, path.display());
            known_hits += 1;
            continue;
        }
        violations += 1;
        println!("VIOLATION property={} replay={}", file.property, path.display());
        println!("  class={} case={} detail={}", file.class, idx, file.detail);
        if exit == 0 {
            exit = 1;
        }
    }
    (agg, wall, violations, known_hits, exit)
}

/// Fold the aggregate of a second batch (another case family of the same check) into the first.
pub fn merge_aggregates(agg: &mut batch::Aggregate, other: batch::Aggregate) {
    for (k, v) in other.counters.iter() {
        *agg.counters.entry(k).or_insert(0) += v;
    }
    for (k, v) in other.groups.iter() {
        *agg.groups.entry(k).or_insert(0) += v;
    }
    agg.evaluations += other.evaluations;
    agg.completed += other.completed;
    agg.decisions += other.decisions;
    agg.steps += other.steps;
    agg.context_switches += other.context_switches;
    agg.preemptions += other.preemptions;
    agg.nontrivial += other.nontrivial;
    agg.fair_phase_entered += other.fair_phase_entered;
    agg.max_fair_decisions = agg.max_fair_decisions.max(other.max_fair_decisions);
    agg.behaviours_nontrivial.extend(other.behaviours_nontrivial.iter());
    agg.behaviours_all.extend(other.behaviours_all.iter());
    agg.trace_hashes.extend(other.trace_hashes.iter());
    agg.samples.extend(other.samples.into_iter().take(1));
}

/// Run a pipeline check and write its evidence. Returns the process exit code.
pub fn run_pipeline_check(check: &str, tier: Tier, seed: u64) -> i32 {
    let spec = check_spec(check);
    let runs = runs_for(&spec, tier);
    let (mut agg, mut wall, mut violations, mut known_hits, mut exit) = run_pipeline_part(check, tier, seed, runs);
    if check == "C07" {
        // the production beneficiary history under concurrent record / invalidate / resolve / validate
        let comp_runs = std::env::var("VERIF_RUNS").ok().and_then(|s| s.parse().ok()).unwrap_or(if tier == Tier::Quick { 200_000u64 } else { 10_000_000 });
        let (agg2, wall2, v2, k2, e2) = crate::components::run_component_batch("C07", tier, seed, comp_runs);
        merge_aggregates(&mut agg, agg2);
        wall += wall2;
        violations += v2;
        known_hits += k2;
        exit = exit.max(e2);
    }
    if check == "C10" {
        // C10 (b): concurrent cache-filling readers vs an in-order committer on the production views
        let comp_runs = std::env::var("VERIF_RUNS").ok().and_then(|s| s.parse().ok()).unwrap_or(if tier == Tier::Quick { 200_000u64 } else { 5_000_000 });
        let (agg2, wall2, v2, k2, e2) = crate::statecomp::run_batch(tier, seed, comp_runs);
        merge_aggregates(&mut agg, agg2);
        wall += wall2;
        violations += v2;
        known_hits += k2;
        exit = exit.max(e2);
        // C10 (a): sequential history differential (no schedule; deterministic in (seed, idx))
        let hist_runs = std::env::var("VERIF_RUNS").ok().and_then(|s| s.parse().ok()).unwrap_or(if tier == Tier::Quick { 100_000u64 } else { 3_000_000 });
        let case = |idx: u64| crate::histcomp::case_record(tier, seed, idx);
        let (agg3, wall3) = batch::run_batch(hist_runs, jobs(), 4, None, &case);
        let mut seen: Vec<String> = Vec::new();
        for (idx, f) in &agg3.findings {
            if seen.contains(&f.class) {
                continue;
            }
            seen.push(f.class.clone());
            // the operation sequence is a pure function of (seed, idx) and the scenario; the file carries
            // the scenario so that it stays valid when the workload generator changes
            let (_, used) = crate::histcomp::case_record_with(tier, seed, *idx, None);
            let file = ReplayFile {
                check: "C10".into(),
                property: "C10".into(),
                class: f.class.clone(),
                detail: f.detail.clone(),
                seed,
                case_index: *idx,
                scenario: used,
                sched: sched_for(seed, *idx, SchedMode::Any),
                trace: Trace::default(),
                extra: json!({"history_differential": {"tier": tier.name()}}),
            };
            let path = file.write();
            violations += 1;
            println!("VIOLATION property=C10 replay={}", path.display());
            println!("  class={} case={} detail={}", f.class, idx, f.detail.chars().take(900).collect::<String>());
            if exit == 0 {
                exit = 1;
            }
        }
        merge_aggregates(&mut agg, agg3);
        wall += wall3;
    }
    let meta = EvidenceMeta {
        property: check,
        tier: tier.name(),
        seed,
        level: spec.level,
        rule: spec.rule,
        assumptions: vec![
            "the simulated memory model is sequential consistency (weak-memory reorderings are not explored by this check)".into(),
            "DashMap operations, revm execution and rayon are atomic / uncontrolled with respect to the schedule".into(),
            "the reference model is stock revm: a defect shared by both sides is invisible".into(),
            "seeded sampling of schedules and faults is evidence, not proof".into(),
        ],
        real_components: REAL.to_vec(),
        replaced_components: REPLACED.to_vec(),
        stubbed_components: STUBBED.to_vec(),
        extra: json!({"jobs": jobs(), "n1_random_phase_decisions": N1, "n2_fair_phase_decisions": N2}),
    };
    batch::write_evidence(&meta, &agg, wall, violations, known_hits);
    println!(
        "check {check} {}: {} runs in {:.1}s ({:.0} runs/h), {} decisions, {} non-trivial, {} distinct behaviours, violations={} known={} exit={}",
        tier.name(),
        agg.evaluations,
        wall,
        agg.evaluations as f64 / wall.max(1e-9) * 3600.0,
        agg.decisions,
        agg.nontrivial,
        agg.behaviours_nontrivial.len(),
        violations,
        known_hits,
        exit
    );
    exit
}

/// `sim replay <file>`: exit 1 + "VIOLATION ... class=<class>" if the file reproduces its violation.
pub fn replay(path: &Path) -> i32 {
    crate::hook::warm_up();
    let file = ReplayFile::read(path);
    if !file.extra["history_differential"].is_null() {
        let tier = if file.extra["history_differential"]["tier"].as_str() == Some("thorough") { Tier::Thorough } else { Tier::Quick };
        let fixed = (!file.scenario.pre_state.is_empty() || !file.scenario.txs.is_empty()).then_some(&file.scenario);
        let (r, _) = crate::histcomp::case_record_with(tier, file.seed, file.case_index, fixed);
        return match r.findings.iter().find(|f| f.class == file.class) {
            Some(f) => {
                println!("VIOLATION property=C10 replay={} class={}", path.display(), f.class);
                println!("  detail={}", f.detail);
                1
            }
            None => {
                println!("replay did not reproduce the violation (class={})", file.class);
                0
            }
        };
    }
    if !file.extra["state_readers"].is_null() {
        return crate::statecomp::replay(&file, path);
    }
    if !file.extra["component"].is_null() || !file.extra["miri"].is_null() {
        return crate::components::replay(&file, path);
    }
    let (mine, harness, out) = evaluate_replay(&file, true);
    for h in &harness {
        println!("HARNESS-ERROR replay: {h}");
    }
    println!("replay {}: {}", path.display(), out.summary);
    let hit = mine.iter().find(|f| f.class == file.class);
    match hit {
        Some(f) => {
            println!("VIOLATION property={} replay={} class={}", f.property, path.display(), f.class);
            println!("  detail={}", f.detail);
            1
        }
        None => {
            if let Some(f) = mine.first() {
                println!("replay produced a different finding: property={} class={} detail={}", f.property, f.class, f.detail);
            } else {
                println!("replay did not reproduce the violation (class={})", file.class);
            }
            if harness.is_empty() { 0 } else { 2 }
        }
    }
}

pub fn default_entry() -> Vec<Vec<Entry>> {
    vec![vec![Entry::Execute]]
}

pub fn trace_len(t: &Trace) -> usize {
    t.tasks.len()
}
