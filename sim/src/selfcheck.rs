//! Proving the simulator before believing it: determinism across processes and worker counts.
//!
//! `selfcheck determinism N` computes, for N cases of every pipeline check, the (trace hash, decisions,
//! behaviour) triple; in parent mode it runs itself twice as child processes with different `--jobs`
//! values and diffs the outputs.

use crate::checks::{self, Tier};
use std::collections::BTreeMap;
use std::sync::Mutex;

fn digest(seed: u64, runs: u64, jobs: usize) -> BTreeMap<(String, u64), (u64, u64, u64)> {
    let out = Mutex::new(BTreeMap::new());
    for check in checks::PIPELINE_CHECKS {
        let case = |idx: u64| {
            let r = checks::pipeline_case_record(check, Tier::Quick, seed, idx);
            out.lock().unwrap().insert((check.to_string(), idx), (r.stats.trace_hash, r.stats.decisions, r.stats.behaviour));
            r
        };
        let _ = crate::batch::run_batch(runs, jobs, usize::MAX, None, &case);
    }
    // component simulations and the state-readers component of C10
    for check in crate::components::COMPONENT_CHECKS.iter().chain(["C07"].iter()) {
        let case = |idx: u64| {
            let r = crate::components::case_record(check, Tier::Quick, seed, idx);
            out.lock().unwrap().insert((format!("{check}-component"), idx), (r.stats.trace_hash, r.stats.decisions, r.stats.behaviour));
            r
        };
        let _ = crate::batch::run_batch(runs, jobs, usize::MAX, None, &case);
    }
    let case = |idx: u64| {
        let r = crate::statecomp::case_record(Tier::Quick, seed, idx);
        out.lock().unwrap().insert(("C10-state-readers".to_string(), idx), (r.stats.trace_hash, r.stats.decisions, r.stats.behaviour));
        r
    };
    let _ = crate::batch::run_batch(runs, jobs, usize::MAX, None, &case);
    let case = |idx: u64| {
        let r = crate::histcomp::case_record(Tier::Quick, seed, idx);
        out.lock().unwrap().insert(("C10-history-differential".to_string(), idx), (r.stats.trace_hash, r.stats.decisions, r.stats.behaviour));
        r
    };
    let _ = crate::batch::run_batch(runs, jobs, usize::MAX, None, &case);
    out.into_inner().unwrap()
}

/// One case evaluated as the FIRST thing a fresh process does (catches state that only the first run
/// of a process sees differently: one-time lazy initialisation that draws hash seeds, ...).
fn single(seed: u64, family: &str, idx: u64) -> (u64, u64, u64) {
    crate::hook::warm_up();
    let r = if let Some(check) = family.strip_suffix("-component") {
        crate::components::case_record(check, Tier::Quick, seed, idx)
    } else if family == "C10-state-readers" {
        crate::statecomp::case_record(Tier::Quick, seed, idx)
    } else if family == "C10-history-differential" {
        crate::histcomp::case_record(Tier::Quick, seed, idx)
    } else {
        checks::pipeline_case_record(family, Tier::Quick, seed, idx)
    };
    (r.stats.trace_hash, r.stats.decisions, r.stats.behaviour)
}

pub fn determinism(seed: u64, runs: u64, args: &[String]) -> i32 {
    if let Some(pos) = args.iter().position(|a| a == "--single") {
        let (h, d, b) = single(seed, &args[pos + 1], args[pos + 2].parse().unwrap());
        println!("{} {} {h:016x} {d} {b:016x}", args[pos + 1], args[pos + 2]);
        return 0;
    }
    if args.iter().any(|a| a == "--child") {
        let jobs = args.iter().position(|a| a == "--jobs").and_then(|i| args.get(i + 1)).and_then(|s| s.parse().ok()).unwrap_or(4);
        for ((check, idx), (h, d, b)) in digest(seed, runs, jobs) {
            println!("{check} {idx} {h:016x} {d} {b:016x}");
        }
        return 0;
    }
    let exe = std::env::current_exe().unwrap();
    let mut outputs = Vec::new();
    for jobs in ["16", "3"] {
        let o = std::process::Command::new(&exe)
            .args(["selfcheck", "determinism", &runs.to_string(), "--child", "--jobs", jobs])
            .env("VERIF_SEED", seed.to_string())
            .output()
            .expect("spawn child");
        if !o.status.success() {
            println!("determinism child failed: {}", String::from_utf8_lossy(&o.stderr));
            return 2;
        }
        outputs.push(String::from_utf8_lossy(&o.stdout).to_string());
    }
    let a: Vec<&str> = outputs[0].lines().collect();
    let b: Vec<&str> = outputs[1].lines().collect();
    let mut diffs = 0;
    for (x, y) in a.iter().zip(b.iter()) {
        if x != y {
            if diffs < 10 {
                println!("DIVERGENCE:\n  jobs=16: {x}\n  jobs=3 : {y}");
            }
            diffs += 1;
        }
    }
    if a.len() != b.len() {
        println!("DIVERGENCE: {} vs {} lines", a.len(), b.len());
        diffs += 1;
    }
    // the same cases as the first (and only) case of a fresh process each
    let mut families: Vec<String> = checks::PIPELINE_CHECKS.iter().map(|c| c.to_string()).collect();
    families.extend(["C15-component", "C16-component", "C17-component", "C07-component", "C10-state-readers", "C10-history-differential"].map(String::from));
    let mut singles = 0;
    for family in &families {
        for idx in [1u64, runs.saturating_sub(1).min(7)] {
            let o = std::process::Command::new(&exe)
                .args(["selfcheck", "determinism", &runs.to_string(), "--single", family, &idx.to_string()])
                .env("VERIF_SEED", seed.to_string())
                .output()
                .expect("spawn single");
            let line = String::from_utf8_lossy(&o.stdout).lines().last().unwrap_or("").to_string();
            singles += 1;
            if !a.contains(&line.as_str()) {
                if diffs < 10 {
                    let batch = a.iter().find(|l| l.starts_with(&format!("{family} {idx} "))).copied().unwrap_or("<missing>");
                    println!("DIVERGENCE (fresh process vs batch):\n  fresh: {line}\n  batch: {batch}");
                }
                diffs += 1;
            }
        }
    }
    println!("determinism: {} cases compared across 2 processes (jobs 16 vs 3) and {singles} of them re-run as the only case of a fresh process, {} divergences", a.len(), diffs);
    if diffs == 0 { 0 } else { 2 }
}
