//! Proving the simulator before believing it: determinism across processes and worker counts.
//!
//! `selfcheck determinism N` computes, for N cases of every pipeline check, the (trace hash, decisions,
//! behaviour) triple; in parent mode it runs itself twice as child processes with different `--jobs`
//! values and diffs the outputs.

use crate::checks::{self, Tier};
use std::collections::BTreeMap;
use std::sync::Mutex;

fn digest(seed: u64, runs: u64, jobs: usize) -> BTreeMap<(String, u64), (u64, u64, u64)> {
    let out = Mutex::new(BTreeMap::new());
    for check in checks::PIPELINE_CHECKS {
        let case = |idx: u64| {
            let r = checks::pipeline_case_record(check, Tier::Quick, seed, idx);
            out.lock().unwrap().insert((check.to_string(), idx), (r.stats.trace_hash, r.stats.decisions, r.stats.behaviour));
            r
        };
        let _ = crate::batch::run_batch(runs, jobs, usize::MAX, None, &case);
    }
    // component simulations and the state-readers component of C10
    for check in crate::components::COMPONENT_CHECKS.iter().chain(["C07"].iter()) {
        let case = |idx: u64| {
            let r = crate::components::case_record(check, Tier::Quick, seed, idx);
            out.lock().unwrap().insert((format!("{check}-component"), idx), (r.stats.trace_hash, r.stats.decisions, r.stats.behaviour));
            r
        };
        let _ = crate::batch::run_batch(runs, jobs, usize::MAX, None, &case);
    }
    let case = |idx: u64| {
        let r = crate::statecomp::case_record(Tier::Quick, seed, idx);
        out.lock().unwrap().insert(("C10-state-readers".to_string(), idx), (r.stats.trace_hash, r.stats.decisions, r.stats.behaviour));
        r
    };
    let _ = crate::batch::run_batch(runs, jobs, usize::MAX, None, &case);
    let case = |idx: u64| {
        let r = crate::histcomp::case_record(Tier::Quick, seed, idx);
        out.lock().unwrap().insert(("C10-history-differential".to_string(), idx), (r.stats.trace_hash, r.stats.decisions, r.stats.behaviour));
        r
    };
    let _ = crate::batch::run_batch(runs, jobs, usize::MAX, None, &case);
    out.into_inner().unwrap()
}

pub fn determinism(seed: u64, runs: u64, args: &[String]) -> i32 {
    if args.iter().any(|a| a == "--child") {
        let jobs = args.iter().position(|a| a == "--jobs").and_then(|i| args.get(i + 1)).and_then(|s| s.parse().ok()).unwrap_or(4);
        for ((check, idx), (h, d, b)) in digest(seed, runs, jobs) {
            println!("{check} {idx} {h:016x} {d} {b:016x}");
        }
        return 0;
    }
    let exe = std::env::current_exe().unwrap();
    let mut outputs = Vec::new();
    for jobs in ["16", "3"] {
        let o = std::process::Command::new(&exe)
            .args(["selfcheck", "determinism", &runs.to_string(), "--child", "--jobs", jobs])
            .env("VERIF_SEED", seed.to_string())
            .output()
            .expect("spawn child");
        if !o.status.success() {
            println!("determinism child failed: {}", String::from_utf8_lossy(&o.stderr));
            return 2;
        }
        outputs.push(String::from_utf8_lossy(&o.stdout).to_string());
    }
    let a: Vec<&str> = outputs[0].lines().collect();
    let b: Vec<&str> = outputs[1].lines().collect();
    let mut diffs = 0;
    for (x, y) in a.iter().zip(b.iter()) {
        if x != y {
            if diffs < 10 {
                println!("DIVERGENCE:\n  jobs=16: {x}\n  jobs=3 : {y}");
            }
            diffs += 1;
        }
    }
    if a.len() != b.len() {
        println!("DIVERGENCE: {} vs {} lines", a.len(), b.len());
        diffs += 1;
    }
    println!("determinism: {} cases compared across 2 processes (jobs 16 vs 3), {} divergences", a.len(), diffs);
    if diffs == 0 { 0 } else { 2 }
}
