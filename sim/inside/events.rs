// Read-only event hooks (H3). The observer is installed per OS thread by the harness; it runs inside
// the emitting task with schedule points disabled, must not call back into the scheduler under test
// and must not draw randomness.

use super::rt;
use revm_context::result::ExecutionResult;
use revm_state::EvmState;
use std::cell::RefCell;

#[derive(Debug)]
pub enum Event<'a> {
    /// A worker starts executing an incarnation (status and incarnation checks passed).
    ExecStart { txid: usize, incarnation: usize },
    /// The incarnation finished: `ok` = EVM produced a result, `blocked` = it read an estimate.
    ExecEnd { txid: usize, incarnation: usize, ok: bool, blocked: bool },
    /// An erroring attempt found itself at the commit head (decides fallback / fatal).
    ErrorAtHead { txid: usize, invalid_tx: bool },
    Validate { txid: usize, incarnation: usize, ts: usize, ok: bool },
    /// the validation timestamp has just been taken (the read-set scan follows)
    ValidateStart { txid: usize, incarnation: usize },
    /// call-site brackets around every `rewind_validation_to(index)` of the scheduler
    RewindCall { index: usize },
    RewindReturn { index: usize },
    /// a worker claimed the validation of `txid` on the cursor (status lock not yet taken)
    ValidationClaimed { txid: usize },
    /// emitted immediately after the cursor rewind took effect (no schedule point in between)
    Rewind { index: usize, ts: usize, previous: usize },
    Finality { txid: usize, unconfirmed_ts: usize, lower_ts: usize },
    /// Ordered commit is about to apply `state` (deferred reward already folded in) for `txid`.
    Commit { txid: usize, result: &'a ExecutionResult, state: &'a EvmState },
    /// Ordered commit refused the transaction and asked for sequential revalidation.
    CommitNeedsFallback { txid: usize },
    /// Sequential replay committed / skipped / failed a transaction.
    SeqCommit { txid: usize, result: &'a ExecutionResult, state: &'a EvmState },
    SeqSkip { txid: usize },
    SeqError { txid: usize },
    Abort { kind: u8, txid: usize },
    Park { slot: usize },
    Notify { slot: usize },
    DepOp { op: u8, txid: usize, arg: usize, result: usize },
}

pub const ABORT_FATAL: u8 = 1;
pub const ABORT_COMMIT_ERROR: u8 = 2;
pub const ABORT_PARALLEL_ERROR: u8 = 3;
pub const ABORT_FALLBACK: u8 = 4;

pub const DEP_NEXT: u8 = 1;
pub const DEP_REMOVE: u8 = 2;
pub const DEP_COMMIT: u8 = 3;
pub const DEP_KEY_TX: u8 = 4;
pub const DEP_ADD: u8 = 5;

type Observer = Box<dyn FnMut(&Event<'_>)>;

thread_local! {
    static OBSERVER: RefCell<Option<Observer>> = const { RefCell::new(None) };
}

pub fn set_observer(observer: Option<Observer>) -> Option<Observer> {
    OBSERVER.with(|o| std::mem::replace(&mut *o.borrow_mut(), observer))
}

#[inline]
pub fn event(e: Event<'_>) {
    if !rt::in_sim() {
        return;
    }
    let _guard = rt::no_switch();
    // Feed a digest of the event into the trace hash (determinism proof covers payload order).
    let digest = match &e {
        Event::ExecStart { txid, incarnation } => 0x01_0000 + (*txid as u64) * 64 + *incarnation as u64,
        Event::ExecEnd { txid, incarnation, ok, blocked } => {
            0x02_0000 + (*txid as u64) * 256 + (*incarnation as u64) * 4 + (*ok as u64) * 2 + *blocked as u64
        }
        Event::ErrorAtHead { txid, invalid_tx } => 0x03_0000 + (*txid as u64) * 2 + *invalid_tx as u64,
        Event::Validate { txid, incarnation, ts, ok } => {
            0x04_0000 + (*txid as u64) * 4096 + (*incarnation as u64) * 2 + *ok as u64 + ((*ts as u64) << 24)
        }
        Event::ValidateStart { txid, incarnation } => 0x10_0000 + (*txid as u64) * 64 + *incarnation as u64,
        Event::RewindCall { index } => 0x11_0000 + *index as u64,
        Event::RewindReturn { index } => 0x12_0000 + *index as u64,
        Event::ValidationClaimed { txid } => 0x13_0000 + *txid as u64,
        Event::Rewind { index, ts, previous } => 0x05_0000 + *index as u64 + ((*ts as u64) << 24) + ((*previous as u64) << 48),
        Event::Finality { txid, unconfirmed_ts, lower_ts } => {
            0x06_0000 + *txid as u64 + ((*unconfirmed_ts as u64) << 24) + ((*lower_ts as u64) << 44)
        }
        Event::Commit { txid, state, .. } => 0x07_0000 + *txid as u64 + ((state.len() as u64) << 24),
        Event::CommitNeedsFallback { txid } => 0x08_0000 + *txid as u64,
        Event::SeqCommit { txid, state, .. } => 0x09_0000 + *txid as u64 + ((state.len() as u64) << 24),
        Event::SeqSkip { txid } => 0x0a_0000 + *txid as u64,
        Event::SeqError { txid } => 0x0b_0000 + *txid as u64,
        Event::Abort { kind, txid } => 0x0c_0000 + (*kind as u64) * 4096 + *txid as u64,
        Event::Park { slot } => 0x0d_0000 + *slot as u64,
        Event::Notify { slot } => 0x0e_0000 + *slot as u64,
        Event::DepOp { op, txid, arg, result } => {
            0x0f_0000 + (*op as u64) + ((*txid as u64) << 8) + ((*arg as u64) << 20) + ((*result as u64) << 40)
        }
    };
    rt::mix(digest);
    // which transaction is this task working on (read by transaction-targeted schedule strategies)
    match &e {
        Event::ExecStart { txid, incarnation } => rt::set_current_op(rt::OP_EXEC, *txid, *incarnation),
        Event::ValidateStart { txid, incarnation } => rt::set_current_op(rt::OP_VALIDATE, *txid, *incarnation),
        Event::ValidationClaimed { txid } => rt::set_current_op(rt::OP_CLAIM, *txid, 0),
        _ => {}
    }
    OBSERVER.with(|o| {
        if let Ok(mut guard) = o.try_borrow_mut()
            && let Some(observer) = guard.as_mut()
        {
            observer(&e);
        }
    });
}

/// Finality hook helper: reads the validation timestamp through the production accessor with
/// schedule points disabled (hooks only read; they must not add decisions).
pub fn finality_event(txid: usize, lower_ts: usize, unconfirmed_ts: impl FnOnce(usize) -> usize) {
    if !rt::in_sim() {
        return;
    }
    let ts = {
        let _guard = rt::no_switch();
        unconfirmed_ts(txid)
    };
    event(Event::Finality { txid, unconfirmed_ts: ts, lower_ts });
}

pub fn abort_event<E>(reason: &crate::AbortReason<E>) {
    let (kind, txid) = match reason {
        crate::AbortReason::FatalEvmError(txid) => (ABORT_FATAL, *txid),
        crate::AbortReason::CommitError(e) => (ABORT_COMMIT_ERROR, e.txid),
        crate::AbortReason::ParallelError { txid, .. } => (ABORT_PARALLEL_ERROR, *txid),
        crate::AbortReason::FallbackSequential => (ABORT_FALLBACK, usize::MAX >> 8),
    };
    event(Event::Abort { kind, txid });
}
