// component drivers (filled in later)
