// C10 (b): concurrent cache-filling readers against an in-order committer, on the PRODUCTION
// `ParallelState::split_for_parallel` views (pub(crate), hence driven from inside the crate).
// 1-3 reader tasks read accounts / slots / code through `ParallelStateView` while one committer task
// applies a history of real journal output through `ParallelStateCommit`. Every read records how many
// commits had completed when it started and how many had started when it returned, so the harness can
// attribute its value to one of those states; afterwards the harness compares what the state serves
// with revm `State` driven by the same history.

use crate::verif::rt;
use crate::verif::sync::thread;
use revm::{DatabaseCommit, DatabaseRef};
use revm_primitives::{Address, B256, Bytes, U256};
use revm_state::EvmState;
use std::cell::Cell;

#[derive(Clone, Debug, PartialEq, Eq)]
pub enum ReadOp {
    Basic(Address),
    Storage(Address, U256),
    Code(B256),
}

#[derive(Clone, Debug, PartialEq, Eq)]
pub enum ReadVal {
    /// (balance, nonce, code hash) or None for an absent account
    Basic(Option<(U256, u64, B256)>),
    Storage(U256),
    Code(Bytes),
    Error(String),
}

#[derive(Clone, Debug)]
pub struct ReadRecord {
    pub reader: usize,
    pub op: ReadOp,
    pub value: ReadVal,
    /// commits completed when the read started
    pub commits_before: usize,
    /// commits started when the read returned
    pub commits_after: usize,
}

pub fn read_through<DB: DatabaseRef>(db: &DB, op: &ReadOp) -> ReadVal {
    match op {
        ReadOp::Basic(a) => match db.basic_ref(*a) {
            Ok(info) => ReadVal::Basic(info.map(|i| (i.balance, i.nonce, i.code_hash))),
            Err(_) => ReadVal::Error("basic".into()),
        },
        ReadOp::Storage(a, k) => match db.storage_ref(*a, *k) {
            Ok(v) => ReadVal::Storage(v),
            Err(_) => ReadVal::Error("storage".into()),
        },
        ReadOp::Code(h) => match db.code_by_hash_ref(*h) {
            Ok(c) => ReadVal::Code(c.original_bytes()),
            Err(_) => ReadVal::Error("code".into()),
        },
    }
}

/// Runs inside a simulated execution. `history[k]` is committed as the k-th transaction state.
pub fn parallel_state_readers<DB>(
    state: &mut crate::ParallelState<DB>,
    history: Vec<EvmState>,
    reads: &[Vec<ReadOp>],
) -> Vec<ReadRecord>
where
    DB: DatabaseRef + Send + Sync,
    DB::Error: Send + Sync,
{
    struct Counter(Cell<usize>);
    unsafe impl Sync for Counter {}
    impl Counter {
        fn get(&self) -> usize {
            self.0.get()
        }
        fn inc(&self) {
            self.0.set(self.0.get() + 1);
        }
    }
    let started = Counter(Cell::new(0));
    let done = Counter(Cell::new(0));
    let records = std::sync::Mutex::new(Vec::<ReadRecord>::new());
    let (view, mut commit) = state.split_for_parallel();
    rt::set_current_role(rt::ROLE_AUX);
    thread::scope(|scope| {
        let committer = scope.spawn(|| {
            rt::set_current_role(rt::ROLE_COMMIT);
            for delta in history {
                // the executing worker loaded every account of its state through the shared view
                // before the result was committed (commit expects them in the cache)
                for address in delta.keys() {
                    let _ = view.basic_ref(*address);
                }
                started.inc();
                rt::sched_point("drv.commit.begin");
                commit.commit(delta);
                done.inc();
                rt::sched_point("drv.commit.end");
            }
        });
        for (reader, ops) in reads.iter().enumerate() {
            let records = &records;
            let started = &started;
            let done = &done;
            scope.spawn(move || {
                rt::set_current_role(rt::ROLE_WORKER);
                for op in ops {
                    rt::sched_point("drv.read.begin");
                    let before = done.get();
                    let value = read_through(&view, op);
                    let after = started.get();
                    records.lock().unwrap().push(ReadRecord { reader, op: op.clone(), value, commits_before: before, commits_after: after });
                }
            });
        }
        if let Err(payload) = committer.join() {
            std::panic::resume_unwind(payload);
        }
    });
    records.into_inner().unwrap()
}
