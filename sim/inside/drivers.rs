// C10 (b): concurrent cache-filling readers against an in-order committer, on the PRODUCTION
// `ParallelState::split_for_parallel` views (pub(crate), hence driven from inside the crate).
// 1-3 reader tasks read accounts / slots / code through `ParallelStateView` while one committer task
// applies a history of real journal output through `ParallelStateCommit`. Every read records how many
// commits had completed when it started and how many had started when it returned, so the harness can
// attribute its value to one of those states; afterwards the harness compares what the state serves
// with revm `State` driven by the same history.

use crate::verif::rt;
use crate::verif::sync::thread;
use revm::{DatabaseCommit, DatabaseRef};
use revm_primitives::{Address, B256, Bytes, U256};
use revm_state::EvmState;
use std::cell::Cell;

#[derive(Clone, Debug, PartialEq, Eq)]
pub enum ReadOp {
    Basic(Address),
    Storage(Address, U256),
    Code(B256),
}

#[derive(Clone, Debug, PartialEq, Eq)]
pub enum ReadVal {
    /// (balance, nonce, code hash) or None for an absent account
    Basic(Option<(U256, u64, B256)>),
    Storage(U256),
    Code(Bytes),
    Error(String),
}

#[derive(Clone, Debug)]
pub struct ReadRecord {
    pub reader: usize,
    pub op: ReadOp,
    pub value: ReadVal,
    /// commits completed when the read started
    pub commits_before: usize,
    /// commits started when the read returned
    pub commits_after: usize,
}

pub fn read_through<DB: DatabaseRef>(db: &DB, op: &ReadOp) -> ReadVal {
    match op {
        ReadOp::Basic(a) => match db.basic_ref(*a) {
            Ok(info) => ReadVal::Basic(info.map(|i| (i.balance, i.nonce, i.code_hash))),
            Err(_) => ReadVal::Error("basic".into()),
        },
        ReadOp::Storage(a, k) => match db.storage_ref(*a, *k) {
            Ok(v) => ReadVal::Storage(v),
            Err(_) => ReadVal::Error("storage".into()),
        },
        ReadOp::Code(h) => match db.code_by_hash_ref(*h) {
            Ok(c) => ReadVal::Code(c.original_bytes()),
            Err(_) => ReadVal::Error("code".into()),
        },
    }
}

/// Runs inside a simulated execution. `history[k]` is committed as the k-th transaction state.
pub fn parallel_state_readers<DB>(
    state: &mut crate::ParallelState<DB>,
    history: Vec<EvmState>,
    reads: &[Vec<ReadOp>],
) -> Vec<ReadRecord>
where
    DB: DatabaseRef + Send + Sync,
    DB::Error: Send + Sync,
{
    struct Counter(Cell<usize>);
    unsafe impl Sync for Counter {}
    impl Counter {
        fn get(&self) -> usize {
            self.0.get()
        }
        fn inc(&self) {
            self.0.set(self.0.get() + 1);
        }
    }
    let started = Counter(Cell::new(0));
    let done = Counter(Cell::new(0));
    let records = std::sync::Mutex::new(Vec::<ReadRecord>::new());
    let (view, mut commit) = state.split_for_parallel();
    rt::set_current_role(rt::ROLE_AUX);
    thread::scope(|scope| {
        let committer = scope.spawn(|| {
            rt::set_current_role(rt::ROLE_COMMIT);
            for delta in history {
                // the executing worker loaded every account of its state through the shared view
                // before the result was committed (commit expects them in the cache)
                for address in delta.keys() {
                    let _ = view.basic_ref(*address);
                }
                started.inc();
                rt::sched_point("drv.commit.begin");
                commit.commit(delta);
                done.inc();
                rt::sched_point("drv.commit.end");
            }
        });
        for (reader, ops) in reads.iter().enumerate() {
            let records = &records;
            let started = &started;
            let done = &done;
            scope.spawn(move || {
                rt::set_current_role(rt::ROLE_WORKER);
                for op in ops {
                    rt::sched_point("drv.read.begin");
                    let before = done.get();
                    let value = read_through(&view, op);
                    let after = started.get();
                    records.lock().unwrap().push(ReadRecord { reader, op: op.clone(), value, commits_before: before, commits_after: after });
                }
            });
        }
        if let Err(payload) = committer.join() {
            std::panic::resume_unwind(payload);
        }
    });
    records.into_inner().unwrap()
}

// ------------------------------------------------------------------------------------------------
// C07: the production beneficiary history (`crate::beneficiary::Beneficiary`) under concurrent
// record / record_estimate / invalidate / resolve_before / validate.
//
// Every entry operation is atomic under the simulator (one switch BEFORE the entry lock, none inside
// and none on release), so the driver keeps an exact sequential model of every entry, updated
// immediately after each operation returns (no schedule point in between): return values are compared
// with the model at once. Scans (`resolve_before`, `validate`) are NOT atomic - they read one entry
// at a time, newest first - so a scan result is checked against the model's *timeline*: there must
// be non-decreasing read instants inside the scan's interval at which each entry it reports had
// exactly the reported version, and the returned account must be the in-order fold of exactly those
// versions' effects over the snapshot they end in, or over the block anchor. After all tasks have
// joined, every read is validated once more: a read that still validates must equal the in-order
// fold of the final entries.
// ------------------------------------------------------------------------------------------------

use crate::beneficiary::{Beneficiary, DeferredBeneficiaryReward, SpeculativeResult};
use crate::scheduler::verif_drivers::DriverReport;
use revm_context::result::{ExecutionResult, Output, ResultAndState, ResultGas, SuccessReason};
use revm_state::{Account, AccountInfo, AccountStatus};
use std::cell::RefCell;

#[derive(Clone, Debug, PartialEq, Eq)]
pub enum HistEffect {
    Estimate,
    Unchanged,
    /// deferred non-zero reward
    Reward(U256),
    /// absolute post-state of the beneficiary written by the transaction itself (None = deleted)
    Snapshot(Option<(U256, u64)>),
}

#[derive(Clone, Debug)]
pub enum HistOp {
    Record { tx: usize, inc: usize, effect: HistEffect },
    Invalidate { tx: usize, inc: usize },
    Resolve { t: usize },
    /// re-validate this task's k-th earlier read while writers may still be active
    Revalidate { k: usize },
    Yield,
}

#[derive(Clone, Debug)]
pub struct HistScenario {
    pub n: usize,
    pub anchor: Option<(U256, u64)>,
    pub tasks: Vec<Vec<HistOp>>,
}

#[derive(Clone, Debug, PartialEq, Eq)]
struct EntryModel {
    inc: usize,
    effect: HistEffect,
}

struct HistModel {
    /// per entry: (time from which the state holds, state); time = number of completed mutations
    timeline: Vec<Vec<(usize, EntryModel)>>,
    now: usize,
    violations: Vec<(&'static str, String)>,
    reads: Vec<HistRead>,
    oplog: Vec<String>,
}

struct HistRead {
    task: usize,
    t: usize,
    start: usize,
    end: usize,
    result: Result<(Option<AccountInfo>, crate::beneficiary::BeneficiaryReadVersion, Vec<(usize, usize)>), usize>,
}

fn hist_info(v: &Option<(U256, u64)>) -> Option<AccountInfo> {
    v.map(|(balance, nonce)| AccountInfo { balance, nonce, ..Default::default() })
}

fn parse_origins(version: &crate::beneficiary::BeneficiaryReadVersion) -> Vec<(usize, usize)> {
    // `origins` is private; its Debug rendering is `TxVersion { txid: A, incarnation: B }` per element
    let text = format!("{version:?}");
    let mut out = Vec::new();
    let mut rest = text.as_str();
    while let Some(p) = rest.find("txid: ") {
        rest = &rest[p + 6..];
        let a: usize = rest.chars().take_while(|c| c.is_ascii_digit()).collect::<String>().parse().unwrap();
        let q = rest.find("incarnation: ").unwrap();
        rest = &rest[q + 13..];
        let b: usize = rest.chars().take_while(|c| c.is_ascii_digit()).collect::<String>().parse().unwrap();
        out.push((a, b));
    }
    out
}

impl HistModel {
    fn state_at(&self, tx: usize, time: usize) -> &EntryModel {
        let tl = &self.timeline[tx];
        let mut cur = &tl[0].1;
        for (from, st) in tl {
            if *from <= time {
                cur = st;
            } else {
                break;
            }
        }
        cur
    }

    fn current(&self, tx: usize) -> EntryModel {
        self.timeline[tx].last().unwrap().1.clone()
    }

    fn mutate(&mut self, tx: usize, st: EntryModel) {
        self.now += 1;
        let now = self.now;
        self.timeline[tx].push((now, st));
    }

    /// earliest instant in [from, to] at which `pred(state of tx)` holds
    fn earliest(&self, tx: usize, from: usize, to: usize, pred: &dyn Fn(&EntryModel) -> bool) -> Option<usize> {
        // states only change at timeline instants: candidates are `from` and every change in (from, to]
        if pred(self.state_at(tx, from)) {
            return Some(from);
        }
        for (time, st) in &self.timeline[tx] {
            if *time > from && *time <= to && pred(st) {
                return Some(*time);
            }
        }
        None
    }

    /// in-order fold of the given exact versions (newest first) over their base
    fn fold(&self, anchor: &Option<(U256, u64)>, chain_newest_first: &[(usize, EntryModel)]) -> Result<Option<AccountInfo>, String> {
        let mut base = hist_info(anchor);
        let mut rewards: Vec<U256> = Vec::new();
        for (i, (tx, st)) in chain_newest_first.iter().enumerate() {
            match &st.effect {
                HistEffect::Estimate => return Err(format!("origin tx {tx} is an estimate")),
                HistEffect::Unchanged => {}
                HistEffect::Reward(a) => rewards.push(*a),
                HistEffect::Snapshot(s) => {
                    if i + 1 != chain_newest_first.len() {
                        return Err(format!("origin chain continues below the snapshot of tx {tx}"));
                    }
                    base = hist_info(s);
                }
            }
        }
        let mut acc = base;
        for a in rewards.into_iter().rev() {
            let mut info = acc.unwrap_or_default();
            if let Some(b) = info.balance.checked_add(a) {
                info.balance = b;
            }
            acc = Some(info);
        }
        Ok(acc)
    }
}

pub fn beneficiary_history(sc: &HistScenario) -> DriverReport {
    struct Shared(RefCell<HistModel>);
    // SAFETY: all simulator tasks run on one OS thread and never switch while the borrow is alive
    unsafe impl Sync for Shared {}
    let address = Address::repeat_byte(0xbe);
    let beneficiary = Beneficiary::new(address, hist_info(&sc.anchor), sc.n);
    let shared = Shared(RefCell::new(HistModel {
        timeline: (0..sc.n).map(|_| vec![(0usize, EntryModel { inc: 0, effect: HistEffect::Estimate })]).collect(),
        now: 0,
        violations: Vec::new(),
        reads: Vec::new(),
        oplog: Vec::new(),
    }));
    let result_of = |effect: &HistEffect| -> SpeculativeResult {
        let mut state = revm_primitives::AddressMap::default();
        let mut deferred = None;
        match effect {
            HistEffect::Reward(a) => deferred = Some(DeferredBeneficiaryReward::for_verif(*a)),
            HistEffect::Snapshot(s) => {
                let mut account = Account::default();
                match s {
                    Some((balance, nonce)) => {
                        account.info = AccountInfo { balance: *balance, nonce: *nonce, ..Default::default() };
                        account.status = AccountStatus::Touched;
                    }
                    None => account.status = AccountStatus::Touched | AccountStatus::SelfDestructed,
                }
                state.insert(address, account);
            }
            _ => {}
        }
        let rs = ResultAndState {
            result: ExecutionResult::Success { reason: SuccessReason::Stop, gas: ResultGas::default().with_total_gas_spent(21_000), logs: Vec::new(), output: Output::Call(Bytes::new()) },
            state,
        };
        match deferred {
            Some(d) => SpeculativeResult::deferred(rs, d),
            None => SpeculativeResult::settled(rs),
        }
    };
    rt::set_current_role(rt::ROLE_AUX);
    thread::scope(|scope| {
        for (task, ops) in sc.tasks.iter().enumerate() {
            let shared = &shared;
            let beneficiary = &beneficiary;
            let result_of = &result_of;
            scope.spawn(move || {
                rt::set_current_role(rt::ROLE_WORKER);
                let mut my_reads: Vec<usize> = Vec::new();
                for op in ops {
                    match op {
                        HistOp::Yield => thread::yield_now(),
                        HistOp::Record { tx, inc, effect } => {
                            let version = crate::TxVersion::new(*tx, *inc);
                            let ok = if *effect == HistEffect::Estimate {
                                beneficiary.record_estimate(&version)
                            } else {
                                beneficiary.record_execution(&version, &result_of(effect))
                            };
                            // --- no schedule point from here to the end of the arm ---
                            let mut m = shared.0.borrow_mut();
                            let cur = m.current(*tx);
                            let expect = *inc > cur.inc;
                            m.oplog.push(format!("t{task}:record({tx},{inc},{effect:?})={ok}"));
                            if ok != expect {
                                let log = m.oplog.clone();
                                m.violations.push(("history.record_result", format!("record(tx {tx}, incarnation {inc}) returned {ok} while the entry held incarnation {}; ops {log:?}", cur.inc)));
                            }
                            if expect {
                                m.mutate(*tx, EntryModel { inc: *inc, effect: effect.clone() });
                            }
                        }
                        HistOp::Invalidate { tx, inc } => {
                            let ok = beneficiary.invalidate(&crate::TxVersion::new(*tx, *inc));
                            let mut m = shared.0.borrow_mut();
                            let cur = m.current(*tx);
                            let expect = cur.inc == *inc;
                            m.oplog.push(format!("t{task}:invalidate({tx},{inc})={ok}"));
                            if ok != expect {
                                let log = m.oplog.clone();
                                m.violations.push(("history.invalidate_result", format!("invalidate(tx {tx}, incarnation {inc}) returned {ok} while the entry held incarnation {}; ops {log:?}", cur.inc)));
                            }
                            if expect && cur.effect != HistEffect::Estimate {
                                m.mutate(*tx, EntryModel { inc: *inc, effect: HistEffect::Estimate });
                            }
                        }
                        HistOp::Resolve { t } => {
                            let start = shared.0.borrow().now;
                            let r = beneficiary.resolve_before(*t);
                            let mut m = shared.0.borrow_mut();
                            let end = m.now;
                            let result = match r {
                                Ok(read) => {
                                    let (account, version) = read.into_parts();
                                    let origins = parse_origins(&version);
                                    Ok((account, version, origins))
                                }
                                Err(b) => Err(b),
                            };
                            m.oplog.push(format!(
                                "t{task}:resolve_before({t})@[{start},{end}]={}",
                                match &result {
                                    Ok((a, _, o)) => format!("Ok(balance {:?}, origins {o:?})", a.as_ref().map(|i| i.balance)),
                                    Err(b) => format!("Err({b})"),
                                }
                            ));
                            my_reads.push(m.reads.len());
                            m.reads.push(HistRead { task, t: *t, start, end, result });
                        }
                        HistOp::Revalidate { k } => {
                            if let Some(&ri) = my_reads.get(*k) {
                                let (t, version) = {
                                    let m = shared.0.borrow();
                                    match &m.reads[ri].result {
                                        Ok((_, v, _)) => (m.reads[ri].t, Some(v.clone())),
                                        Err(_) => (0, None),
                                    }
                                };
                                if let Some(v) = version {
                                    let _ = beneficiary.validate(t, &v);
                                }
                            }
                        }
                    }
                }
            });
        }
    });

    // ---- quiescent checks (single task, no concurrency left) ----
    let _g = rt::no_switch();
    let mut m = shared.0.into_inner();
    let mut report = DriverReport::default();
    let mut h = 0xcbf2_9ce4_8422_2325u64;
    let mix = |h: &mut u64, v: u64| {
        *h ^= v;
        *h = h.wrapping_mul(0x0000_0100_0000_01b3);
    };
    let mut overlapped = 0u64;
    let reads = std::mem::take(&mut m.reads);
    for rd in &reads {
        if rd.end > rd.start {
            overlapped += 1;
        }
        mix(&mut h, (rd.t as u64) << 8 | (rd.end - rd.start) as u64);
        match &rd.result {
            Ok((account, _version, origins)) => {
                // shape: contiguous descending from t-1
                let mut time = rd.start;
                let mut chain: Vec<(usize, EntryModel)> = Vec::new();
                let mut bad: Option<String> = None;
                for (i, (tx, inc)) in origins.iter().enumerate() {
                    if *tx + i + 1 != rd.t {
                        bad = Some(format!("origins are not contiguous below {}: {origins:?}", rd.t));
                        break;
                    }
                    let inc_ = *inc;
                    match m.earliest(*tx, time, rd.end, &|st: &EntryModel| st.inc == inc_ && st.effect != HistEffect::Estimate) {
                        Some(at) => {
                            time = at;
                            chain.push((*tx, m.state_at(*tx, at).clone()));
                        }
                        None => {
                            bad = Some(format!("entry {tx} never held exact incarnation {inc} at a read instant in [{time},{}] compatible with a newest-first scan", rd.end));
                            break;
                        }
                    }
                }
                if bad.is_none() {
                    let ends_in_snapshot = chain.last().is_some_and(|(_, st)| matches!(st.effect, HistEffect::Snapshot(_)));
                    if !ends_in_snapshot && origins.len() != rd.t {
                        bad = Some(format!("origin chain {origins:?} stops above transaction 0 without a snapshot"));
                    }
                }
                if bad.is_none() {
                    match m.fold(&sc.anchor, &chain) {
                        Ok(expected) => {
                            if expected != *account {
                                bad = Some(format!(
                                    "account {:?} is not the in-order fold {:?} of its origins {origins:?}",
                                    account.as_ref().map(|i| (i.balance, i.nonce)),
                                    expected.as_ref().map(|i| (i.balance, i.nonce))
                                ));
                            }
                        }
                        Err(e) => bad = Some(e),
                    }
                }
                if let Some(b) = bad {
                    report.violations.push(("history.read_inconsistent", format!("task {} resolve_before({}) during [{},{}]: {b}; ops {:?}", rd.task, rd.t, rd.start, rd.end, m.oplog)));
                }
            }
            Err(blocker) => {
                // entries t-1 .. blocker+1 exact and not a snapshot, then `blocker` an estimate, at non-decreasing instants
                let mut time = rd.start;
                let mut bad: Option<String> = None;
                if *blocker >= rd.t {
                    bad = Some(format!("blocker {blocker} is not below the reader {}", rd.t));
                } else {
                    for tx in ((*blocker + 1)..rd.t).rev() {
                        match m.earliest(tx, time, rd.end, &|st: &EntryModel| !matches!(st.effect, HistEffect::Estimate | HistEffect::Snapshot(_))) {
                            Some(at) => time = at,
                            None => {
                                bad = Some(format!("entry {tx} was never an exact non-snapshot value when the scan passed it"));
                                break;
                            }
                        }
                    }
                    if bad.is_none() && m.earliest(*blocker, time, rd.end, &|st: &EntryModel| st.effect == HistEffect::Estimate).is_none() {
                        bad = Some(format!("entry {blocker} was never an estimate in [{time},{}]", rd.end));
                    }
                }
                if let Some(b) = bad {
                    report.violations.push(("history.blocker_inconsistent", format!("task {} resolve_before({}) = Err({blocker}) during [{},{}]: {b}; ops {:?}", rd.task, rd.t, rd.start, rd.end, m.oplog)));
                }
            }
        }
    }
    // final entries: what the history serves now must be the in-order fold of the model's final states
    let final_chain = |t: usize| -> Result<Vec<(usize, EntryModel)>, usize> {
        let mut chain = Vec::new();
        for tx in (0..t).rev() {
            let st = m.current(tx);
            if st.effect == HistEffect::Estimate {
                return Err(tx);
            }
            let snap = matches!(st.effect, HistEffect::Snapshot(_));
            chain.push((tx, st));
            if snap {
                break;
            }
        }
        Ok(chain)
    };
    for t in 0..=sc.n {
        let actual = beneficiary.resolve_before(t);
        let expected = final_chain(t);
        match (actual, expected) {
            (Err(a), Err(e)) if a == e => {}
            (Ok(read), Ok(chain)) => {
                let (account, version) = read.into_parts();
                let origins = parse_origins(&version);
                let want: Vec<(usize, usize)> = chain.iter().map(|(tx, st)| (*tx, st.inc)).collect();
                let fold = m.fold(&sc.anchor, &chain).ok().flatten();
                if origins != want || account != fold {
                    report.violations.push((
                        "history.final_state",
                        format!(
                            "after quiescence resolve_before({t}) = (balance {:?}, origins {origins:?}) but the operations performed leave (balance {:?}, origins {want:?}); ops {:?}",
                            account.as_ref().map(|i| i.balance),
                            fold.as_ref().map(|i| i.balance),
                            m.oplog
                        ),
                    ));
                }
            }
            (a, e) => {
                report.violations.push((
                    "history.final_state",
                    format!("after quiescence resolve_before({t}) = {:?} but the operations performed leave {:?}; ops {:?}", a.map(|r| parse_origins(&r.into_parts().1)), e.map(|c| c.iter().map(|(tx, st)| (*tx, st.inc)).collect::<Vec<_>>()), m.oplog),
                ));
            }
        }
    }
    // a read that still validates after quiescence must equal the in-order fold of the final entries
    let mut still_valid = 0u64;
    let mut invalidated = 0u64;
    for rd in &reads {
        if let Ok((account, version, origins)) = &rd.result {
            let v = beneficiary.validate(rd.t, version);
            if v.is_valid() {
                still_valid += 1;
                let expected = final_chain(rd.t).ok().and_then(|c| m.fold(&sc.anchor, &c).ok());
                if expected.as_ref() != Some(account) {
                    report.violations.push((
                        "history.stale_read_validates",
                        format!(
                            "task {} read balance {:?} before transaction {} (origins {origins:?}); the read still validates after quiescence although in-order resolution of the final entries gives {:?}; ops {:?}",
                            rd.task,
                            account.as_ref().map(|i| i.balance),
                            rd.t,
                            expected.map(|e| e.map(|i| i.balance)),
                            m.oplog
                        ),
                    ));
                }
            } else {
                invalidated += 1;
            }
        }
    }
    report.violations.append(&mut m.violations);
    mix(&mut h, m.now as u64);
    mix(&mut h, still_valid << 8 | invalidated);
    report.behaviour = h;
    report.nontrivial = overlapped > 0;
    report.counters = vec![
        ("probe.hist_reads", reads.len() as u64),
        ("probe.hist_reads_overlapping_a_mutation", overlapped),
        ("probe.hist_reads_still_valid_at_quiescence", still_valid),
        ("probe.hist_reads_invalidated_at_quiescence", invalidated),
        ("probe.hist_mutations", m.now as u64),
    ];
    report
}
