// Component drivers compiled INSIDE `crate::scheduler` (guarded include in scheduler.rs), so they can
// call the production `SchedulerContext`, cursors, `WaitSlot` and `TxDependency` directly: no copy,
// no re-implementation, no widened visibility. Each driver builds the production object, runs a
// seeded scenario on simulator tasks (shim threads) and returns the violations it observed.
//
// Event logs are appended immediately after an operation returns, with no schedule point in between,
// so log order is the real order of the operations' effects (the shim switches BEFORE an operation).

use super::context::SchedulerContext;
use super::cursor::PublishedCursor;
use super::wait::WaitSlot;
use crate::tx_dependency::TxDependency;
use crate::verif::events::{self, Event};
use crate::verif::rt;
use crate::verif::sync::atomic::{AtomicBool, AtomicUsize, Ordering};
use crate::verif::sync::{Mutex, thread};
use std::cell::RefCell;
use std::time::Duration;

#[derive(Clone, Debug, Default)]
pub struct DriverReport {
    pub violations: Vec<(&'static str, String)>,
    /// abstract behaviour digest (for distinct counting)
    pub behaviour: u64,
    pub nontrivial: bool,
    pub counters: Vec<(&'static str, u64)>,
}

fn mixb(h: &mut u64, v: u64) {
    *h ^= v;
    *h = h.wrapping_mul(0x0000_0100_0000_01b3);
}

// ------------------------------------------------------------------------------------------------
// C15 (a): claim / rewind on the validation cursor of the production SchedulerContext
// ------------------------------------------------------------------------------------------------

#[derive(Clone, Debug)]
pub struct CursorScenario {
    pub n: usize,
    pub limit: usize,
    pub claimers: usize,
    /// per rewinder: the indices it rewinds to, in order
    pub rewinders: Vec<Vec<usize>>,
}

#[derive(Clone, Copy, Debug)]
enum CursorEv {
    Claim(usize),
    Rewind { index: usize, previous: usize },
}

pub fn cursor_claim_rewind(sc: &CursorScenario) -> DriverReport {
    let ctx = SchedulerContext::new(sc.n);
    {
        // every transaction has executed: the claim limit is the caller-supplied one
        let _g = rt::no_switch();
        for i in 0..sc.n {
            ctx.executed(i);
        }
    }
    thread_local! {
        static LOG: RefCell<Vec<CursorEv>> = const { RefCell::new(Vec::new()) };
    }
    LOG.with(|l| l.borrow_mut().clear());
    // exact rewind effect times come from the production hook (emitted right after the fetch_min)
    let previous_observer = events::set_observer(Some(Box::new(|e: &Event<'_>| {
        if let Event::Rewind { index, previous, .. } = e {
            LOG.with(|l| l.borrow_mut().push(CursorEv::Rewind { index: *index, previous: *previous }));
        }
    })));
    let rewinders_done = AtomicUsize::new(0);
    let limit = sc.limit;
    let mut report = DriverReport::default();
    let over_limit = Mutex::new(Vec::<usize>::new());
    thread::scope(|scope| {
        for _ in 0..sc.claimers {
            scope.spawn(|| {
                loop {
                    while let Some(i) = ctx.next_validation_idx(limit) {
                        LOG.with(|l| l.borrow_mut().push(CursorEv::Claim(i)));
                        if i >= limit {
                            over_limit.lock().push(i);
                        }
                    }
                    if rewinders_done.load(Ordering::Acquire) == sc.rewinders.len() {
                        // final drain after the last rewind
                        while let Some(i) = ctx.next_validation_idx(limit) {
                            LOG.with(|l| l.borrow_mut().push(CursorEv::Claim(i)));
                            if i >= limit {
                                over_limit.lock().push(i);
                            }
                        }
                        break;
                    }
                    thread::yield_now();
                }
            });
        }
        for targets in &sc.rewinders {
            let rewinders_done = &rewinders_done;
            let ctx = &ctx;
            scope.spawn(move || {
                for &t in targets {
                    ctx.rewind_validation_to(t);
                    thread::yield_now();
                }
                rewinders_done.fetch_add(1, Ordering::AcqRel);
            });
        }
    });
    events::set_observer(previous_observer);
    let log = LOG.with(|l| std::mem::take(&mut *l.borrow_mut()));
    for i in over_limit.lock().iter() {
        report.violations.push(("cursor.claim_beyond_limit", format!("index {i} handed out with limit {limit}")));
    }
    let mut effective_rewinds = 0u64;
    for (pos, ev) in log.iter().enumerate() {
        if let CursorEv::Rewind { index, previous } = ev &&
            previous > index
        {
            effective_rewinds += 1;
            for j in *index..(*previous).min(limit) {
                let reoffered = log[pos + 1..].iter().any(|e| matches!(e, CursorEv::Claim(c) if *c == j));
                if !reoffered {
                    report.violations.push((
                        "cursor.rewound_index_not_reoffered",
                        format!("rewind to {index} (cursor was {previous}) but index {j} was never claimed afterwards; log {log:?}"),
                    ));
                    break;
                }
            }
        }
    }
    let mut h = 0xcbf2_9ce4_8422_2325u64;
    for ev in &log {
        mixb(&mut h, match ev {
            CursorEv::Claim(i) => *i as u64,
            CursorEv::Rewind { index, previous } => 0x100 + (*index as u64) * 16 + *previous as u64,
        });
    }
    report.behaviour = h;
    report.nontrivial = effective_rewinds > 0;
    report.counters.push(("probe.effective_rewinds", effective_rewinds));
    report.counters.push(("probe.claims", log.iter().filter(|e| matches!(e, CursorEv::Claim(_))).count() as u64));
    report
}

// ------------------------------------------------------------------------------------------------
// C15 (b): execution frontier
// ------------------------------------------------------------------------------------------------

#[derive(Clone, Debug)]
pub struct FrontierScenario {
    pub n: usize,
    /// per publisher: indices it publishes, in order
    pub publishers: Vec<Vec<usize>>,
    pub readers: usize,
    pub reads_per_reader: usize,
}

pub fn frontier(sc: &FrontierScenario) -> DriverReport {
    let ctx = SchedulerContext::new(sc.n);
    thread_local! {
        static STARTED: RefCell<Vec<bool>> = const { RefCell::new(Vec::new()) };
    }
    STARTED.with(|s| *s.borrow_mut() = vec![false; sc.n]);
    let violations = Mutex::new(Vec::<(&'static str, String)>::new());
    let publishers_done = AtomicUsize::new(0);
    let mut observed = Vec::new();
    let observed_m = Mutex::new(&mut observed);
    thread::scope(|scope| {
        for list in &sc.publishers {
            let ctx = &ctx;
            let publishers_done = &publishers_done;
            scope.spawn(move || {
                for &i in list {
                    STARTED.with(|s| s.borrow_mut()[i] = true);
                    ctx.executed(i);
                }
                publishers_done.fetch_add(1, Ordering::AcqRel);
            });
        }
        for _ in 0..sc.readers {
            scope.spawn(|| {
                for _ in 0..sc.reads_per_reader {
                    let f = ctx.execution_frontier();
                    let missing = STARTED.with(|s| (0..f.min(sc.n)).find(|&j| !s.borrow()[j]));
                    if let Some(j) = missing {
                        violations.lock().push((
                            "frontier.passed_unexecuted",
                            format!("frontier {f} returned although transaction {j} never started publishing"),
                        ));
                    }
                    if f > sc.n {
                        violations.lock().push(("frontier.out_of_range", format!("frontier {f} > {}", sc.n)));
                    }
                    observed_m.lock().push(f);
                    thread::yield_now();
                }
            });
        }
    });
    let mut report = DriverReport::default();
    // quiescence: the frontier equals the first index nobody published
    let published: Vec<bool> = {
        let mut p = vec![false; sc.n];
        for list in &sc.publishers {
            for &i in list {
                p[i] = true;
            }
        }
        p
    };
    let expected = published.iter().position(|b| !*b).unwrap_or(sc.n);
    let final_frontier = {
        let _g = rt::no_switch();
        ctx.execution_frontier()
    };
    if final_frontier != expected {
        report.violations.push((
            "frontier.did_not_catch_up",
            format!("at quiescence the frontier is {final_frontier}, the first unexecuted transaction is {expected}"),
        ));
    }
    report.violations.extend(violations.lock().drain(..));
    let mut h = 0xcbf2_9ce4_8422_2325u64;
    for f in &observed {
        mixb(&mut h, *f as u64);
    }
    report.behaviour = h;
    report.nontrivial = observed.windows(2).any(|w| w[0] != w[1]) || observed.iter().any(|f| *f != 0 && *f != expected);
    report
}

// ------------------------------------------------------------------------------------------------
// C17: WaitSlot — one waiter running the production loop shape, notifiers doing `publish; notify()`
// ------------------------------------------------------------------------------------------------

#[derive(Clone, Debug)]
pub struct WaitScenario {
    pub notifiers: usize,
    pub publishes_per_notifier: usize,
    /// the waiter yields this many times before registering itself
    pub register_delay: usize,
    /// the waiter consumes in steps: it waits until the counter reaches each of these targets in turn
    pub targets: Vec<usize>,
}

pub fn wait_slot(sc: &WaitScenario) -> DriverReport {
    let slot = WaitSlot::new();
    let counter = AtomicUsize::new(0);
    let done = AtomicBool::new(false);
    let mut wakeups = 0u64;
    thread::scope(|scope| {
        let waiter = scope.spawn(|| {
            let mut parks = 0u64;
            for _ in 0..sc.register_delay {
                thread::yield_now();
            }
            slot.register_current_thread();
            for &target in &sc.targets {
                // production loop shape: `while !condition { wait_while(timeout, || !condition) }`
                while counter.load(Ordering::Acquire) < target {
                    slot.wait_while(Duration::from_secs(8), || counter.load(Ordering::Acquire) < target);
                    parks += 1;
                }
            }
            done.store(true, Ordering::Release);
            parks
        });
        for _ in 0..sc.notifiers {
            scope.spawn(|| {
                for _ in 0..sc.publishes_per_notifier {
                    // producers publish state before notify
                    counter.fetch_add(1, Ordering::AcqRel);
                    slot.notify();
                }
            });
        }
        wakeups = waiter.join().unwrap_or(0);
    });
    let mut report = DriverReport::default();
    if !done.peek() {
        report.violations.push(("wait.waiter_not_done", "waiter did not observe the final condition".into()));
    }
    report.behaviour = wakeups.wrapping_mul(0x9E37_79B9) ^ rt::fault_counts()[rt::FC_PARK_BLOCKED];
    report.nontrivial = rt::fault_counts()[rt::FC_PARK_BLOCKED] > 0;
    report.counters.push(("probe.waiter_really_parked", rt::fault_counts()[rt::FC_PARK_BLOCKED]));
    report
}

// ------------------------------------------------------------------------------------------------
// C16: TxDependency driven with the call protocol of scheduler.rs
// ------------------------------------------------------------------------------------------------

#[derive(Clone, Copy, Debug, PartialEq, Eq)]
pub enum Outcome {
    Success,
    /// estimate read: blocked behind predecessor `dep` (< txid)
    Conflict(usize),
    /// EVM error with no unresolved predecessor: park behind the own commit boundary
    Error,
}

#[derive(Clone, Debug)]
pub struct DepScenario {
    pub n: usize,
    pub workers: usize,
    /// per transaction: outcomes of its successive executions; the last one is always Success
    pub scripts: Vec<Vec<Outcome>>,
}

#[derive(Clone, Copy, Debug, PartialEq, Eq)]
enum St {
    Initial,
    Executing,
    Executed,
    Conflict,
}

pub fn tx_dependency(sc: &DepScenario) -> DriverReport {
    let n = sc.n;
    let debug = std::env::var_os("VERIF_DEBUG").is_some();
    macro_rules! dbg_op {
        ($($arg:tt)*) => {
            if debug {
                let _g = rt::no_switch();
                eprintln!("[task {}] {}", rt::me(), format!($($arg)*));
            }
        };
    }
    let dep = TxDependency::new(n);
    let committed = PublishedCursor::new(0);
    let status: Vec<Mutex<(St, usize)>> = (0..n).map(|_| Mutex::new((St::Initial, 0))).collect();
    let stop = AtomicBool::new(false);
    // claims / onboardings per transaction (counts are order-insensitive)
    let claims: Vec<AtomicUsize> = (0..n).map(|_| AtomicUsize::new(0)).collect();
    let onboards: Vec<AtomicUsize> = (0..n).map(|_| AtomicUsize::new(0)).collect();
    let double_exec = AtomicUsize::new(0);
    // stale-edge oracle: blocked_on[t] = (blocker, resolution epoch of the blocker when the edge was
    // requested); resolved[b] counts completed "resolutions" of b (an execution without conflict, or b
    // found already past execution). Epochs are read BEFORE `add` and bumped BEFORE `remove`, so every
    // legal release is recognised as such (lenient on races, never a false alarm).
    let blocked_on: Vec<Mutex<Option<(usize, usize)>>> = (0..n).map(|_| Mutex::new(None)).collect();
    let resolved: Vec<AtomicUsize> = (0..n).map(|_| AtomicUsize::new(0)).collect();
    // number of `remove(b, ..)` calls currently in progress (a release during one is legal)
    let resolving: Vec<AtomicUsize> = (0..n).map(|_| AtomicUsize::new(0)).collect();
    let stale_release = Mutex::new(Vec::<String>::new());
    let check_claim = |t: usize| {
        dbg_op!("claim {t}");
        let _g = rt::no_switch();
        let entry = *blocked_on[t].lock();
        if let Some((b, epoch)) = entry &&
            resolved[b].peek() == epoch &&
            resolving[b].peek() == 0 &&
            committed.get() < t
        {
            stale_release.lock().push(format!(
                "transaction {t} was handed out while its current blocker {b} has neither finished an execution nor been found past execution, and the committed prefix ({}) has not reached it",
                committed.get()
            ));
        }
    };

    // mirrors Scheduler::execution_task
    let execution_task = |id: usize| -> Option<usize> {
        let mut tx = status[id].lock();
        match tx.0 {
            St::Initial | St::Conflict => {
                tx.0 = St::Executing;
                tx.1 += 1;
                Some(id)
            }
            St::Executing => None,
            St::Executed => {
                drop(tx);
                {
                    let _g = rt::no_switch();
                    resolving[id].fetch_add(1, Ordering::Relaxed);
                }
                dbg_op!("execution_task({id}): already executed -> remove(false)");
                dep.remove(id, false);
                {
                    let _g = rt::no_switch();
                    resolved[id].fetch_add(1, Ordering::Relaxed);
                    resolving[id].fetch_sub(1, Ordering::Relaxed);
                }
                None
            }
        }
    };
    // mirrors Scheduler::execute_task for one claimed transaction; returns a direct hand-off
    let execute = |txid: usize| -> Option<usize> {
        let mut tx = status[txid].lock();
        if tx.0 != St::Executing {
            double_exec.fetch_add(1, Ordering::Relaxed);
            return None;
        }
        let attempt = tx.1;
        let script = &sc.scripts[txid];
        let outcome = script.get(attempt - 1).copied().unwrap_or(Outcome::Success);
        thread::yield_now(); // the execution itself takes time
        let mut next = None;
        match outcome {
            Outcome::Success => {
                {
                    let _g = rt::no_switch();
                    resolving[txid].fetch_add(1, Ordering::Relaxed);
                    *blocked_on[txid].lock() = None;
                }
                dbg_op!("tx {txid} attempt {attempt} success -> remove(true)");
                next = dep.remove(txid, true);
                dbg_op!("tx {txid} remove returned {next:?}");
                {
                    let _g = rt::no_switch();
                    resolved[txid].fetch_add(1, Ordering::Relaxed);
                    resolving[txid].fetch_sub(1, Ordering::Relaxed);
                }
                if let Some(nx) = next {
                    check_claim(nx);
                    claims[nx].fetch_add(1, Ordering::Relaxed);
                }
                tx.0 = St::Executed;
            }
            Outcome::Conflict(d) => {
                // latest_unfinalized_blocker: a blocker below the stable prefix is no blocker
                let blocker = (d < txid && d >= committed.get()).then_some(d);
                let epoch = blocker.map(|b| {
                    let _g = rt::no_switch();
                    resolved[b].peek()
                });
                dbg_op!("tx {txid} attempt {attempt} conflict({d}) -> add({blocker:?}) epoch {epoch:?}");
                dep.add(txid, blocker);
                dbg_op!("tx {txid} add done");
                {
                    let _g = rt::no_switch();
                    *blocked_on[txid].lock() = blocker.map(|b| (b, epoch.unwrap()));
                }
                onboards[txid].fetch_add(1, Ordering::Relaxed);
                if let Some(b) = blocker {
                    // `add` also re-onboards the blocker so that it is (re-)offered
                    onboards[b].fetch_add(1, Ordering::Relaxed);
                }
                tx.0 = St::Conflict;
            }
            Outcome::Error => {
                {
                    let _g = rt::no_switch();
                    *blocked_on[txid].lock() = None;
                }
                dbg_op!("tx {txid} attempt {attempt} error -> key_tx");
                dep.key_tx(txid, committed.reader());
                onboards[txid].fetch_add(1, Ordering::Relaxed);
                tx.0 = St::Conflict;
            }
        }
        drop(tx);
        next.and_then(|nx| execution_task(nx))
    };

    thread::scope(|scope| {
        // ordered commit: takes Executed transactions contiguously
        scope.spawn(|| {
            let mut commit_idx = 0;
            while commit_idx < n {
                let ready = status[commit_idx].lock().0 == St::Executed;
                if ready {
                    dbg_op!("commit {commit_idx}: publish");
                    committed.publish(commit_idx + 1);
                    dep.commit(commit_idx);
                    dbg_op!("commit {commit_idx}: done");
                    commit_idx += 1;
                } else {
                    thread::yield_now();
                }
            }
            stop.store(true, Ordering::Release);
        });
        for _ in 0..sc.workers {
            scope.spawn(|| {
                while !stop.load(Ordering::Acquire) {
                    if dep.index() >= n {
                        thread::yield_now();
                    }
                    if let Some(id) = dep.next() {
                        check_claim(id);
                        claims[id].fetch_add(1, Ordering::Relaxed);
                        let mut task = execution_task(id);
                        while let Some(t) = task {
                            task = execute(t);
                        }
                    }
                }
            });
        }
    });

    let mut report = DriverReport::default();
    let mut h = 0xcbf2_9ce4_8422_2325u64;
    for t in 0..n {
        let c = claims[t].peek();
        let o = onboards[t].peek();
        let (st, attempts) = *status[t].lock();
        if st != St::Executed {
            report.violations.push(("dependency.orphan", format!("transaction {t} ended in state {st:?}")));
        }
        if attempts != sc.scripts[t].len().max(1) {
            report.violations.push((
                "dependency.wrong_number_of_executions",
                format!("transaction {t} executed {attempts} times, its script has {} attempts", sc.scripts[t].len()),
            ));
        }
        if c > 1 + o {
            report.violations.push((
                "dependency.duplicate_claim",
                format!("transaction {t} was claimed {c} times but made claimable only {} times", 1 + o),
            ));
        }
        mixb(&mut h, (t as u64) << 32 | (c as u64) << 16 | o as u64);
        report.counters.push(("probe.claims", c as u64));
        report.counters.push(("probe.reonboardings", o as u64));
    }
    for d in stale_release.lock().iter().take(1) {
        report.violations.push(("dependency.released_by_stale_edge", d.clone()));
    }
    if double_exec.peek() > 0 {
        report.violations.push(("dependency.claim_without_execution_right", format!("{} claims reached execute() without the Executing status", double_exec.peek())));
    }
    report.behaviour = h;
    report.nontrivial = sc.scripts.iter().any(|s| s.len() > 1);
    report
}

// ------------------------------------------------------------------------------------------------
// C16 (API level): replacing a blocker leaves a stale reverse edge behind; releasing the OLD blocker
// must not release the transaction, releasing the NEW one must — exactly once — whatever the order
// in which the second `add`, the `remove` of the old blocker and concurrent `next` claims interleave.
// ------------------------------------------------------------------------------------------------

#[derive(Clone, Debug)]
pub struct ReplaceScenario {
    pub n: usize,
    pub tx: usize,
    pub old_blocker: usize,
    pub new_blocker: usize,
    pub claimers: usize,
    pub pop_next: bool,
    /// false: both `add`s complete before the old blocker is released (exact oracle: no claim before
    /// the new blocker resolves); true: the second `add` races the release of the old blocker (at most
    /// one claim before the new blocker resolves, at most one more after)
    pub race_second_add: bool,
}

pub fn dependency_replace(sc: &ReplaceScenario) -> DriverReport {
    let dep = TxDependency::new(sc.n);
    let t = sc.tx;
    // 0: blocker being replaced / old blocker released, 1: new blocker released, 2: stop
    let phase = AtomicUsize::new(0);
    let early = AtomicUsize::new(0);
    let total = AtomicUsize::new(0);
    {
        // every transaction has been claimed once already (cursor past the end), as in a running block
        let _g = rt::no_switch();
        while dep.next().is_some() {}
    }
    let adds_done = AtomicBool::new(false);
    thread::scope(|scope| {
        for _ in 0..sc.claimers {
            scope.spawn(|| {
                loop {
                    if phase.load(Ordering::Acquire) == 2 {
                        break;
                    }
                    if let Some(id) = dep.next() {
                        if id == t {
                            // bookkeeping without a schedule point: the phase is the one at claim time
                            let _g = rt::no_switch();
                            total.fetch_add(1, Ordering::Relaxed);
                            if phase.peek() == 0 {
                                early.fetch_add(1, Ordering::Relaxed);
                            }
                        }
                    } else {
                        thread::yield_now();
                    }
                }
            });
        }
        let adder = scope.spawn(|| {
            dep.add(t, Some(sc.old_blocker));
            dep.add(t, Some(sc.new_blocker));
            adds_done.store(true, Ordering::Release);
        });
        let remover = scope.spawn(|| {
            if !sc.race_second_add {
                while !adds_done.load(Ordering::Acquire) {
                    thread::yield_now();
                }
            }
            if let Some(next) = dep.remove(sc.old_blocker, sc.pop_next) &&
                next == t
            {
                let _g = rt::no_switch();
                total.fetch_add(1, Ordering::Relaxed);
                if phase.peek() == 0 {
                    early.fetch_add(1, Ordering::Relaxed);
                }
            }
        });
        let _ = adder.join();
        let _ = remover.join();
        // let the claimers look at the cursor a few more times
        for _ in 0..6 {
            thread::yield_now();
        }
        {
            let _g = rt::no_switch();
            phase.store(1, Ordering::Release);
        }
        let before = total.peek();
        if let Some(next) = dep.remove(sc.new_blocker, false) &&
            next == t
        {
            total.fetch_add(1, Ordering::Relaxed);
        }
        // the transaction must be re-offered now (bounded by the fair phase) unless it is still
        // claimed from an early, legal release
        let need = if before > 0 && sc.race_second_add { before } else { before + 1 };
        // no step budget here: stalls and freezes injected by the scheduler may delay the claimers for
        // long; only the fair phase bounds the wait (not finishing there is the orphan verdict)
        while total.load(Ordering::Acquire) < need {
            thread::yield_now();
        }
        for _ in 0..4 {
            thread::yield_now();
        }
        phase.store(2, Ordering::Release);
    });
    let mut report = DriverReport::default();
    let total = total.peek();
    let early = early.peek();
    let allowed_early = if sc.race_second_add { 1 } else { 0 };
    if early > allowed_early {
        report.violations.push((
            "dependency.released_by_stale_edge",
            format!(
                "transaction {t} (now blocked by {}) was handed out {early} time(s) when only its former blocker {} had been released",
                sc.new_blocker, sc.old_blocker
            ),
        ));
    }
    if total == 0 {
        report.violations.push(("dependency.orphan", format!("transaction {t} was never re-offered after its blocker {} resolved", sc.new_blocker)));
    }
    if total > early.min(allowed_early) + 1 && early <= allowed_early {
        report.violations.push(("dependency.duplicate_claim", format!("transaction {t} claimed {total} times ({early} before the new blocker resolved)")));
    }
    report.behaviour = (total as u64) << 8 | early as u64 | (sc.race_second_add as u64) << 16;
    report.nontrivial = true;
    report.counters.push(("probe.claimed_before_new_blocker_resolved", early as u64));
    report
}
