// Glue between the production code's synchronisation seams and the shuttle-engine task runtime.
//
// Rules enforced here:
//  * a schedule point is `switch(site)`, placed BEFORE the visible operation;
//  * never switch while the OS thread is unwinding (`std::thread::panicking()`): an unwinding task is
//    atomic with respect to the schedule, so it can never be suspended half-unwound;
//  * outside a simulation (`IN_SIM == false`) every primitive degenerates to its plain single-threaded
//    behaviour, so public entry points can also be called directly by the harness (reference runs).
//  * logging never draws from the PRNG and never reads a clock.

use shuttle_engine::runtime::execution::ExecutionState;
use shuttle_engine::runtime::task::TaskId;
use shuttle_engine::runtime::thread as engine_thread;
use std::cell::{Cell, RefCell};
use std::panic::Location;

/// Stable (process-independent) identifier of a schedule-point site.
pub type Site = u32;

const MAX_TASKS: usize = 64;

thread_local! {
    static IN_SIM: Cell<bool> = const { Cell::new(false) };
    static NO_SWITCH: Cell<u32> = const { Cell::new(0) };
    static STEPS: Cell<u64> = const { Cell::new(0) };
    static TRACE_HASH: Cell<u64> = const { Cell::new(0xcbf2_9ce4_8422_2325) };
    static PENDING_SITE: RefCell<[Site; MAX_TASKS]> = const { RefCell::new([0; MAX_TASKS]) };
    static ROLE: RefCell<[u8; MAX_TASKS]> = const { RefCell::new([0; MAX_TASKS]) };
    static CURRENT_OP: RefCell<[(u8, u32, u32); MAX_TASKS]> = const { RefCell::new([(0, 0, 0); MAX_TASKS]) };
    static LOG: RefCell<Option<Vec<(u32, Site)>>> = const { RefCell::new(None) };
    static BUGGIFY: Cell<u32> = const { Cell::new(0) };
    static FAULT_COUNTS: RefCell<[u64; 16]> = const { RefCell::new([0; 16]) };
}

/// Thread roles (recorded by the thread shim / event hooks) so the scheduler can name its victims.
pub const ROLE_UNKNOWN: u8 = 0;
pub const ROLE_CALLER: u8 = 1;
pub const ROLE_FINALITY: u8 = 2;
pub const ROLE_COMMIT: u8 = 3;
pub const ROLE_WORKER: u8 = 4;
pub const ROLE_AUX: u8 = 5;

/// Buggify bits (cooperative fault points inside the shims).
pub const BUG_CAS_WEAK_SPURIOUS: u32 = 1;

/// Fault counters (indices into `fault_counts()`).
pub const FC_CAS_WEAK_SPURIOUS: usize = 0;
pub const FC_LOCK_CONTENDED: usize = 1;
pub const FC_PARK_BLOCKED: usize = 2;
pub const FC_UNPARK: usize = 3;
pub const FC_YIELD: usize = 4;
pub const FC_RWLOCK_CONTENDED: usize = 5;

#[inline]
pub fn in_sim() -> bool {
    IN_SIM.with(|c| c.get())
}

/// Called by the harness at the beginning of the main task of a simulated run.
pub fn begin_run(record_log: bool, buggify: u32) {
    IN_SIM.with(|c| c.set(true));
    NO_SWITCH.with(|c| c.set(0));
    STEPS.with(|c| c.set(0));
    TRACE_HASH.with(|c| c.set(0xcbf2_9ce4_8422_2325));
    PENDING_SITE.with(|c| *c.borrow_mut() = [0; MAX_TASKS]);
    CURRENT_OP.with(|c| *c.borrow_mut() = [(0, 0, 0); MAX_TASKS]);
    ROLE.with(|c| {
        let mut r = c.borrow_mut();
        *r = [0; MAX_TASKS];
        r[0] = ROLE_CALLER;
    });
    LOG.with(|c| *c.borrow_mut() = if record_log { Some(Vec::new()) } else { None });
    BUGGIFY.with(|c| c.set(buggify));
    FAULT_COUNTS.with(|c| *c.borrow_mut() = [0; 16]);
}

/// Called by the harness when the main task of a simulated run is done (or from the driver after a
/// failed run, to reset the thread for the next one).
pub fn end_run() {
    IN_SIM.with(|c| c.set(false));
    NO_SWITCH.with(|c| c.set(0));
}

pub fn steps() -> u64 {
    STEPS.with(|c| c.get())
}

pub fn trace_hash() -> u64 {
    TRACE_HASH.with(|c| c.get())
}

pub fn take_log() -> Option<Vec<(u32, Site)>> {
    LOG.with(|c| c.borrow_mut().take())
}

pub fn fault_counts() -> [u64; 16] {
    FAULT_COUNTS.with(|c| *c.borrow())
}

#[inline]
pub fn count_fault(idx: usize) {
    FAULT_COUNTS.with(|c| c.borrow_mut()[idx] += 1);
}

#[inline]
pub fn buggify(bit: u32) -> bool {
    BUGGIFY.with(|c| c.get() & bit != 0)
}

/// Mix a value into the run's trace hash (used by event hooks so that the determinism proof covers
/// payloads, not only task ids).
#[inline]
pub fn mix(v: u64) {
    TRACE_HASH.with(|c| {
        let mut h = c.get();
        h ^= v;
        h = h.wrapping_mul(0x0000_0100_0000_01b3);
        h ^= h >> 29;
        c.set(h);
    });
}

pub const OP_EXEC: u8 = 1;
pub const OP_VALIDATE: u8 = 2;
pub const OP_CLAIM: u8 = 3;

/// (operation kind, txid, incarnation) the task last announced through an event hook
pub fn current_op(task: usize) -> (u8, u32, u32) {
    if task >= MAX_TASKS {
        return (0, 0, 0);
    }
    CURRENT_OP.with(|c| c.borrow()[task])
}

pub fn set_current_op(kind: u8, txid: usize, incarnation: usize) {
    if !in_sim() {
        return;
    }
    let me = me();
    if me < MAX_TASKS {
        CURRENT_OP.with(|c| c.borrow_mut()[me] = (kind, txid as u32, incarnation as u32));
    }
}

pub fn pending_site(task: usize) -> Site {
    if task >= MAX_TASKS {
        return 0;
    }
    PENDING_SITE.with(|c| c.borrow()[task])
}

pub fn role_of(task: usize) -> u8 {
    if task >= MAX_TASKS {
        return ROLE_UNKNOWN;
    }
    ROLE.with(|c| c.borrow()[task])
}

pub fn set_role(task: usize, role: u8) {
    if task < MAX_TASKS {
        ROLE.with(|c| c.borrow_mut()[task] = role);
    }
}

pub fn set_current_role(role: u8) {
    if in_sim() {
        set_role(me(), role);
    }
}

/// RAII guard: no schedule point is taken while it is alive (harness-side atomic sections).
pub struct NoSwitch(());

pub fn no_switch() -> NoSwitch {
    NO_SWITCH.with(|c| c.set(c.get() + 1));
    NoSwitch(())
}

impl Drop for NoSwitch {
    fn drop(&mut self) {
        NO_SWITCH.with(|c| c.set(c.get().saturating_sub(1)));
    }
}

#[inline]
pub fn can_switch() -> bool {
    in_sim() && !std::thread::panicking() && NO_SWITCH.with(|c| c.get()) == 0
}

#[inline]
pub fn me() -> usize {
    ExecutionState::with(|s| usize::from(s.current().id()))
}

pub const fn fnv(bytes: &[u8]) -> u32 {
    let mut h: u32 = 0x811c_9dc5;
    let mut i = 0;
    while i < bytes.len() {
        h ^= bytes[i] as u32;
        h = h.wrapping_mul(0x0100_0193);
        i += 1;
    }
    h
}

#[inline]
pub fn site_of(loc: &'static Location<'static>) -> Site {
    // file name tail + line + column: stable across processes and builds of the same tree.
    let f = loc.file().as_bytes();
    let tail = if f.len() > 24 { &f[f.len() - 24..] } else { f };
    fnv(tail) ^ (loc.line().wrapping_mul(0x9E37_79B1)) ^ (loc.column() << 24)
}

/// The schedule point. Call BEFORE the visible operation.
#[inline]
pub fn switch(site: Site) {
    if !can_switch() {
        return;
    }
    let me = me();
    STEPS.with(|c| c.set(c.get() + 1));
    mix(((me as u64) << 32) | site as u64);
    if me < MAX_TASKS {
        PENDING_SITE.with(|c| c.borrow_mut()[me] = site);
    }
    LOG.with(|c| {
        if let Some(log) = c.borrow_mut().as_mut() {
            log.push((me as u32, site));
        }
    });
    engine_thread::switch();
}

/// Named schedule point used by the guarded one-line hooks in the production code (H2).
#[inline]
pub fn sched_point(name: &'static str) {
    if !can_switch() {
        return;
    }
    switch(fnv(name.as_bytes()));
}

/// Block the current task until somebody calls `unblock(me)`. Callers loop on their condition.
pub fn block_current() {
    debug_assert!(can_switch(), "blocking outside a simulation or while unwinding");
    ExecutionState::with(|s| s.current_mut().block(false));
    engine_thread::switch();
}

pub fn unblock(task: usize) {
    ExecutionState::with(|s| {
        let t = s.get_mut(TaskId::from(task));
        if !t.finished() {
            t.unblock();
        }
    });
}

/// A random u64 drawn from the simulator's scheduler (recorded in the decision trace).
pub fn next_u64() -> u64 {
    ExecutionState::next_u64()
}
