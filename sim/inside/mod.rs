// Harness code compiled *inside* the grevm crate (module `crate::verif`), only with `--cfg grevm_verif`.
// Included from /repo/src/verif.rs through `include!(env!("GREVM_VERIF_INSIDE"))`.
//
// Contents:
//   rt      - glue to the shuttle-engine task runtime (switch / block / unblock, trace hash, stop flags)
//   sync    - drop-in Mutex / RwLock / atomics / thread primitives used by the scheduler under simulation
//   events  - read-only event hooks (observer installed by the harness)
//   drivers - component drivers that call pub(crate) production types directly (cursors, TxDependency, ...)

pub mod rt {
    include!(concat!(env!("GREVM_VERIF_DIR"), "/inside/rt.rs"));
}

pub mod sync {
    include!(concat!(env!("GREVM_VERIF_DIR"), "/inside/sync.rs"));
}

pub mod events {
    include!(concat!(env!("GREVM_VERIF_DIR"), "/inside/events.rs"));
}

pub mod drivers {
    include!(concat!(env!("GREVM_VERIF_DIR"), "/inside/drivers.rs"));
    pub use crate::scheduler::verif_drivers as sched;
}

pub use events::{Event, event};
pub use rt::sched_point;
