// Drop-in replacements for the primitives the scheduler uses: parking_lot::{Mutex, RwLock},
// std::sync::atomic::{AtomicBool, AtomicUsize}, std::thread::{scope, current, yield_now, park_timeout}.
//
// All tasks of one simulated execution run as coroutines on ONE OS thread, exactly one at a time, so
// interior state is accessed without real synchronisation; `Sync` is asserted for the type system only.
// Every operation is preceded by a schedule point (`rt::switch`). No poisoning: like parking_lot, a
// guard dropped while unwinding simply unlocks and wakes the waiters (without switching).

use super::rt;
use std::cell::{Cell, UnsafeCell};
use std::ops::{Deref, DerefMut};
use std::panic::Location;

// ------------------------------------------------------------------------------------------------
// Mutex
// ------------------------------------------------------------------------------------------------

pub struct Mutex<T: ?Sized> {
    locked: Cell<bool>,
    waiters: UnsafeCell<Vec<usize>>,
    data: UnsafeCell<T>,
}

unsafe impl<T: ?Sized + Send> Send for Mutex<T> {}
unsafe impl<T: ?Sized + Send> Sync for Mutex<T> {}

pub struct MutexGuard<'a, T: ?Sized> {
    mutex: &'a Mutex<T>,
}

impl<T> Mutex<T> {
    pub const fn new(value: T) -> Self {
        Self { locked: Cell::new(false), waiters: UnsafeCell::new(Vec::new()), data: UnsafeCell::new(value) }
    }

    pub fn into_inner(self) -> T {
        self.data.into_inner()
    }
}

impl<T: ?Sized> Mutex<T> {
    #[track_caller]
    pub fn lock(&self) -> MutexGuard<'_, T> {
        let site = rt::site_of(Location::caller());
        rt::switch(site);
        loop {
            if !self.locked.get() {
                self.locked.set(true);
                return MutexGuard { mutex: self };
            }
            if !rt::can_switch() {
                panic!("verif::Mutex: contended lock outside a simulation or while unwinding");
            }
            rt::count_fault(rt::FC_LOCK_CONTENDED);
            let me = rt::me();
            // SAFETY: single OS thread, no switch while the reference is alive.
            unsafe {
                let w = &mut *self.waiters.get();
                if !w.contains(&me) {
                    w.push(me);
                }
            }
            rt::block_current();
            unsafe {
                let w = &mut *self.waiters.get();
                w.retain(|&t| t != me);
            }
        }
    }

    pub fn try_lock(&self) -> Option<MutexGuard<'_, T>> {
        if self.locked.get() {
            None
        } else {
            self.locked.set(true);
            Some(MutexGuard { mutex: self })
        }
    }

    pub fn get_mut(&mut self) -> &mut T {
        self.data.get_mut()
    }

    pub fn is_locked(&self) -> bool {
        self.locked.get()
    }

    fn unlock(&self) {
        self.locked.set(false);
        // Wake every waiter; they re-contend, so the scheduler decides who gets the lock next.
        let waiters = unsafe { std::mem::take(&mut *self.waiters.get()) };
        if !waiters.is_empty() && rt::in_sim() {
            for t in waiters {
                rt::unblock(t);
            }
        }
    }
}

impl<T: Default> Default for Mutex<T> {
    fn default() -> Self {
        Self::new(T::default())
    }
}

impl<T: ?Sized + std::fmt::Debug> std::fmt::Debug for Mutex<T> {
    fn fmt(&self, f: &mut std::fmt::Formatter<'_>) -> std::fmt::Result {
        f.debug_struct("Mutex").field("locked", &self.locked.get()).finish_non_exhaustive()
    }
}

impl<T: ?Sized> Deref for MutexGuard<'_, T> {
    type Target = T;
    fn deref(&self) -> &T {
        unsafe { &*self.mutex.data.get() }
    }
}

impl<T: ?Sized> DerefMut for MutexGuard<'_, T> {
    fn deref_mut(&mut self) -> &mut T {
        unsafe { &mut *self.mutex.data.get() }
    }
}

impl<T: ?Sized> Drop for MutexGuard<'_, T> {
    fn drop(&mut self) {
        self.mutex.unlock();
    }
}

impl<T: ?Sized + std::fmt::Debug> std::fmt::Debug for MutexGuard<'_, T> {
    fn fmt(&self, f: &mut std::fmt::Formatter<'_>) -> std::fmt::Result {
        (**self).fmt(f)
    }
}

// ------------------------------------------------------------------------------------------------
// RwLock
// ------------------------------------------------------------------------------------------------

pub struct RwLock<T: ?Sized> {
    readers: Cell<usize>,
    writer: Cell<bool>,
    waiters: UnsafeCell<Vec<usize>>,
    data: UnsafeCell<T>,
}

unsafe impl<T: ?Sized + Send> Send for RwLock<T> {}
unsafe impl<T: ?Sized + Send + Sync> Sync for RwLock<T> {}

pub struct RwLockReadGuard<'a, T: ?Sized> {
    lock: &'a RwLock<T>,
}

pub struct RwLockWriteGuard<'a, T: ?Sized> {
    lock: &'a RwLock<T>,
}

impl<T> RwLock<T> {
    pub const fn new(value: T) -> Self {
        Self {
            readers: Cell::new(0),
            writer: Cell::new(false),
            waiters: UnsafeCell::new(Vec::new()),
            data: UnsafeCell::new(value),
        }
    }

    pub fn into_inner(self) -> T {
        self.data.into_inner()
    }
}

impl<T: ?Sized> RwLock<T> {
    fn wait(&self) {
        if !rt::can_switch() {
            panic!("verif::RwLock: contended lock outside a simulation or while unwinding");
        }
        rt::count_fault(rt::FC_RWLOCK_CONTENDED);
        let me = rt::me();
        unsafe {
            let w = &mut *self.waiters.get();
            if !w.contains(&me) {
                w.push(me);
            }
        }
        rt::block_current();
        unsafe {
            let w = &mut *self.waiters.get();
            w.retain(|&t| t != me);
        }
    }

    fn wake_all(&self) {
        let waiters = unsafe { std::mem::take(&mut *self.waiters.get()) };
        if !waiters.is_empty() && rt::in_sim() {
            for t in waiters {
                rt::unblock(t);
            }
        }
    }

    #[track_caller]
    pub fn read(&self) -> RwLockReadGuard<'_, T> {
        rt::switch(rt::site_of(Location::caller()));
        loop {
            if !self.writer.get() {
                self.readers.set(self.readers.get() + 1);
                return RwLockReadGuard { lock: self };
            }
            self.wait();
        }
    }

    #[track_caller]
    pub fn write(&self) -> RwLockWriteGuard<'_, T> {
        rt::switch(rt::site_of(Location::caller()));
        loop {
            if !self.writer.get() && self.readers.get() == 0 {
                self.writer.set(true);
                return RwLockWriteGuard { lock: self };
            }
            self.wait();
        }
    }

    pub fn get_mut(&mut self) -> &mut T {
        self.data.get_mut()
    }
}

impl<T: Default> Default for RwLock<T> {
    fn default() -> Self {
        Self::new(T::default())
    }
}

impl<T: ?Sized> std::fmt::Debug for RwLock<T> {
    fn fmt(&self, f: &mut std::fmt::Formatter<'_>) -> std::fmt::Result {
        f.debug_struct("RwLock")
            .field("readers", &self.readers.get())
            .field("writer", &self.writer.get())
            .finish_non_exhaustive()
    }
}

impl<T: ?Sized> Deref for RwLockReadGuard<'_, T> {
    type Target = T;
    fn deref(&self) -> &T {
        unsafe { &*self.lock.data.get() }
    }
}

impl<T: ?Sized> Drop for RwLockReadGuard<'_, T> {
    fn drop(&mut self) {
        self.lock.readers.set(self.lock.readers.get() - 1);
        if self.lock.readers.get() == 0 {
            self.lock.wake_all();
        }
    }
}

impl<T: ?Sized> Deref for RwLockWriteGuard<'_, T> {
    type Target = T;
    fn deref(&self) -> &T {
        unsafe { &*self.lock.data.get() }
    }
}

impl<T: ?Sized> DerefMut for RwLockWriteGuard<'_, T> {
    fn deref_mut(&mut self) -> &mut T {
        unsafe { &mut *self.lock.data.get() }
    }
}

impl<T: ?Sized> Drop for RwLockWriteGuard<'_, T> {
    fn drop(&mut self) {
        self.lock.writer.set(false);
        self.lock.wake_all();
    }
}

// ------------------------------------------------------------------------------------------------
// Atomics: std atomics preceded by a labelled schedule point. Only one task runs at a time, so the
// simulated memory model is sequential consistency (weak-memory effects are NOT explored here).
// ------------------------------------------------------------------------------------------------

pub mod atomic {
    use super::rt;
    pub use std::sync::atomic::Ordering;
    use std::panic::Location;

    #[derive(Debug, Default)]
    #[repr(transparent)]
    pub struct AtomicUsize(std::sync::atomic::AtomicUsize);

    #[derive(Debug, Default)]
    #[repr(transparent)]
    pub struct AtomicBool(std::sync::atomic::AtomicBool);

    macro_rules! point {
        () => {
            rt::switch(rt::site_of(Location::caller()))
        };
    }

    impl AtomicUsize {
        pub const fn new(v: usize) -> Self {
            Self(std::sync::atomic::AtomicUsize::new(v))
        }
        #[track_caller]
        #[inline]
        pub fn load(&self, o: Ordering) -> usize {
            point!();
            self.0.load(o)
        }
        #[track_caller]
        #[inline]
        pub fn store(&self, v: usize, o: Ordering) {
            point!();
            self.0.store(v, o)
        }
        #[track_caller]
        #[inline]
        pub fn fetch_add(&self, v: usize, o: Ordering) -> usize {
            point!();
            self.0.fetch_add(v, o)
        }
        #[track_caller]
        #[inline]
        pub fn fetch_sub(&self, v: usize, o: Ordering) -> usize {
            point!();
            self.0.fetch_sub(v, o)
        }
        #[track_caller]
        #[inline]
        pub fn fetch_min(&self, v: usize, o: Ordering) -> usize {
            point!();
            self.0.fetch_min(v, o)
        }
        #[track_caller]
        #[inline]
        pub fn fetch_max(&self, v: usize, o: Ordering) -> usize {
            point!();
            self.0.fetch_max(v, o)
        }
        #[track_caller]
        #[inline]
        pub fn swap(&self, v: usize, o: Ordering) -> usize {
            point!();
            self.0.swap(v, o)
        }
        #[track_caller]
        #[inline]
        pub fn compare_exchange(
            &self,
            current: usize,
            new: usize,
            success: Ordering,
            failure: Ordering,
        ) -> Result<usize, usize> {
            point!();
            self.0.compare_exchange(current, new, success, failure)
        }
        #[track_caller]
        #[inline]
        pub fn compare_exchange_weak(
            &self,
            current: usize,
            new: usize,
            success: Ordering,
            failure: Ordering,
        ) -> Result<usize, usize> {
            point!();
            // Cooperative fault point: a weak CAS may fail spuriously (legal behaviour).
            if rt::buggify(rt::BUG_CAS_WEAK_SPURIOUS) && rt::can_switch() && rt::next_u64() % 8 == 0 {
                rt::count_fault(rt::FC_CAS_WEAK_SPURIOUS);
                return Err(self.0.load(failure));
            }
            self.0.compare_exchange(current, new, success, failure)
        }
        /// Harness-only read without a schedule point.
        pub fn peek(&self) -> usize {
            self.0.load(Ordering::SeqCst)
        }
        pub fn into_inner(self) -> usize {
            self.0.into_inner()
        }
    }

    impl AtomicBool {
        pub const fn new(v: bool) -> Self {
            Self(std::sync::atomic::AtomicBool::new(v))
        }
        #[track_caller]
        #[inline]
        pub fn load(&self, o: Ordering) -> bool {
            point!();
            self.0.load(o)
        }
        #[track_caller]
        #[inline]
        pub fn store(&self, v: bool, o: Ordering) {
            point!();
            self.0.store(v, o)
        }
        #[track_caller]
        #[inline]
        pub fn swap(&self, v: bool, o: Ordering) -> bool {
            point!();
            self.0.swap(v, o)
        }
        #[track_caller]
        #[inline]
        pub fn compare_exchange(
            &self,
            current: bool,
            new: bool,
            success: Ordering,
            failure: Ordering,
        ) -> Result<bool, bool> {
            point!();
            self.0.compare_exchange(current, new, success, failure)
        }
        pub fn peek(&self) -> bool {
            self.0.load(Ordering::SeqCst)
        }
    }
}

// ------------------------------------------------------------------------------------------------
// Threads: scoped threads as engine tasks; std join contract (Err(payload) for a panicked thread);
// park/unpark with std token semantics and NO timer (a park nobody unparks is a deadlock unless the
// simulator's scheduler chooses to wake it spuriously / by "timeout").
// ------------------------------------------------------------------------------------------------

pub mod thread {
    use super::rt;
    use shuttle_engine::runtime::execution::ExecutionState;
    use shuttle_engine::runtime::task::TaskId;
    use shuttle_engine::runtime::thread as engine_thread;
    use std::cell::Cell;
    use std::marker::PhantomData;
    use std::panic::{AssertUnwindSafe, Location, catch_unwind, resume_unwind};
    use std::sync::{Arc, Mutex as StdMutex};
    use std::time::Duration;

    pub use std::thread::{Result, panicking};

    #[derive(Clone, Debug)]
    pub struct Thread {
        task: Option<usize>,
    }

    impl Thread {
        #[track_caller]
        pub fn unpark(&self) {
            let Some(task) = self.task else { return };
            if !rt::in_sim() {
                return;
            }
            rt::switch(rt::site_of(Location::caller()));
            rt::count_fault(rt::FC_UNPARK);
            ExecutionState::with(|s| {
                let t = s.get_mut(TaskId::from(task));
                if !t.finished() {
                    t.unpark();
                }
            });
        }

        pub fn task_id(&self) -> Option<usize> {
            self.task
        }
    }

    pub fn current() -> Thread {
        if rt::in_sim() { Thread { task: Some(rt::me()) } } else { Thread { task: None } }
    }

    pub fn yield_now() {
        if !rt::can_switch() {
            return;
        }
        rt::count_fault(rt::FC_YIELD);
        let me = rt::me();
        rt::mix(0x7969_656c_6400_0000 | me as u64);
        let waker = ExecutionState::with(|state| state.current().waker());
        waker.wake_by_ref();
        ExecutionState::request_yield();
        engine_thread::switch();
    }

    /// `park_timeout` without a timer: the task blocks until unparked. The engine lists parked tasks
    /// as "can be woken spuriously"; whether that ever happens is the simulator scheduler's decision
    /// (strict mode: never; otherwise it models a timeout or a legal spurious wake-up).
    pub fn park_timeout(_timeout: Duration) {
        if !rt::can_switch() {
            return;
        }
        let me = rt::me();
        rt::mix(0x7061_726b_0000_0000 | me as u64);
        let blocked = ExecutionState::with(|s| s.current_mut().park());
        if blocked {
            rt::count_fault(rt::FC_PARK_BLOCKED);
            ExecutionState::request_yield();
            engine_thread::switch();
        }
    }

    pub struct Scope<'scope, 'env: 'scope> {
        running: Cell<usize>,
        main_task: usize,
        main_waiting: Cell<bool>,
        unjoined_panic: Cell<bool>,
        next_role: Cell<u8>,
        scope: PhantomData<&'scope mut &'scope ()>,
        env: PhantomData<&'env mut &'env ()>,
    }

    unsafe impl Sync for Scope<'_, '_> {}

    pub struct ScopedJoinHandle<'scope, T> {
        task: usize,
        result: Arc<StdMutex<Option<Result<T>>>>,
        done: Arc<Cell2>,
        scope_unjoined_panic: *const Cell<bool>,
        _marker: PhantomData<&'scope T>,
    }

    // Cell wrapper that is Send + Sync for the type system; only touched from one OS thread.
    struct Cell2(Cell<bool>);
    unsafe impl Send for Cell2 {}
    unsafe impl Sync for Cell2 {}

    unsafe impl<T> Send for ScopedJoinHandle<'_, T> {}
    unsafe impl<T> Sync for ScopedJoinHandle<'_, T> {}

    impl<'scope, 'env> Scope<'scope, 'env> {
        #[track_caller]
        pub fn spawn<F, T>(&'scope self, f: F) -> ScopedJoinHandle<'scope, T>
        where
            F: FnOnce() -> T + Send + 'scope,
            T: Send + 'scope,
        {
            assert!(rt::in_sim(), "verif::thread::scope used outside a simulation");
            self.running.set(self.running.get() + 1);
            let result: Arc<StdMutex<Option<Result<T>>>> = Arc::new(StdMutex::new(None));
            let done = Arc::new(Cell2(Cell::new(false)));
            let body = {
                let result = Arc::clone(&result);
                let done = Arc::clone(&done);
                let scope_ptr: *const Scope<'scope, 'env> = self;
                move || {
                    let ret = catch_unwind(AssertUnwindSafe(f));
                    // From here to the end of the task there is no schedule point: thread exit is
                    // atomic with respect to the schedule.
                    let panicked = ret.is_err();
                    *result.lock().unwrap() = Some(ret);
                    done.0.set(true);
                    // SAFETY: the scope outlives all its threads (scope() waits for `running == 0`).
                    let scope = unsafe { &*scope_ptr };
                    if panicked {
                        scope.unjoined_panic.set(true);
                    }
                    scope.running.set(scope.running.get() - 1);
                    if scope.running.get() == 0 && scope.main_waiting.get() {
                        rt::unblock(scope.main_task);
                    }
                }
            };
            let engine_result = Arc::new(StdMutex::new(None));
            let f: Box<dyn FnOnce()> =
                Box::new(move || shuttle_engine::thread_support::thread_fn(body, false, engine_result));
            // SAFETY: as for std scoped threads — the scope joins every thread before returning.
            let f: Box<dyn FnOnce() + 'static> = unsafe { std::mem::transmute(f) };
            let stack_size = ExecutionState::with(|s| s.config.stack_size);
            let task_id = ExecutionState::spawn_thread(f, stack_size, None, None, Location::caller());
            let task = usize::from(task_id);
            // Roles by spawn order inside the scheduler's scope: finality, commit, workers...
            let role = self.next_role.get();
            rt::set_role(task, role);
            self.next_role.set(match role {
                rt::ROLE_FINALITY => rt::ROLE_COMMIT,
                _ => rt::ROLE_WORKER,
            });
            ScopedJoinHandle {
                task,
                result,
                done,
                scope_unjoined_panic: &self.unjoined_panic,
                _marker: PhantomData,
            }
        }
    }

    impl<T> ScopedJoinHandle<'_, T> {
        #[track_caller]
        pub fn join(self) -> Result<T> {
            rt::switch(rt::site_of(Location::caller()));
            while !self.done.0.get() {
                let should_block = ExecutionState::with(|state| {
                    let me = state.current().id();
                    let target = state.get_mut(TaskId::from(self.task));
                    if target.set_waiter(me) {
                        state.current_mut().block(false);
                        true
                    } else {
                        false
                    }
                });
                if should_block {
                    engine_thread::switch();
                } else {
                    break;
                }
            }
            let r = self.result.lock().unwrap().take().expect("joined thread has stored its result");
            if r.is_err() {
                // An explicitly joined panic is delivered to the joiner, not to the scope.
                // (std clears the scope's a_thread_panicked flag only for auto-joined threads; we
                // approximate by clearing it when every panic has been observed through join.)
                unsafe { (*self.scope_unjoined_panic).set(false) };
            }
            r
        }

        pub fn thread(&self) -> Thread {
            Thread { task: Some(self.task) }
        }

        pub fn is_finished(&self) -> bool {
            self.done.0.get()
        }
    }

    pub fn scope<'env, F, T>(f: F) -> T
    where
        F: for<'scope> FnOnce(&'scope Scope<'scope, 'env>) -> T,
    {
        assert!(rt::in_sim(), "verif::thread::scope used outside a simulation");
        let scope = Scope {
            running: Cell::new(0),
            main_task: rt::me(),
            main_waiting: Cell::new(false),
            unjoined_panic: Cell::new(false),
            next_role: Cell::new(if rt::role_of(rt::me()) == rt::ROLE_CALLER {
                rt::ROLE_FINALITY
            } else {
                rt::ROLE_AUX
            }),
            env: PhantomData,
            scope: PhantomData,
        };
        let result = catch_unwind(AssertUnwindSafe(|| f(&scope)));
        // Wait for every scoped thread (also when the body panicked), as std does.
        while scope.running.get() != 0 {
            scope.main_waiting.set(true);
            rt::block_current();
        }
        scope.main_waiting.set(false);
        match result {
            Err(payload) => resume_unwind(payload),
            Ok(_) if scope.unjoined_panic.get() => panic!("a scoped thread panicked"),
            Ok(value) => value,
        }
    }
}
