fn main() {
    let dir = std::env::var("CARGO_MANIFEST_DIR").unwrap();
    println!("cargo:rustc-env=GREVM_VERIF_DIR={dir}");
    println!("cargo:rustc-env=GREVM_VERIF_INSIDE={dir}/inside/mod.rs");
    println!("cargo:rustc-cfg=grevm_verif");
    println!("cargo:rerun-if-changed=build.rs");
    println!("cargo:rerun-if-changed=inside");
}
