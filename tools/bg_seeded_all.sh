#!/bin/bash
# Re-run every seeded change against its property's quick check (default budget) on a snapshot of /repo:
#   vp run --with-repo --timeout 6h -- tools/bg_seeded_all.sh [ID...]
R=${VP_RUN_REPO:?needs --with-repo}
sed -i "s#/repo/src/lib.rs#$R/src/lib.rs#" sim/Cargo.toml; sed -i "s#/repo/src/#$R/src/#g" miri/src/main.rs
export CARGO_NET_OFFLINE=true
IDS="$@"; [ -z "$IDS" ] && IDS=$(ls /verif/seeded)
for ID in $IDS; do
  D=/verif/seeded/$ID
  P=$(python3 -c "import json;print(json.load(open('$D/meta.json'))['breaks_property'])" 2>/dev/null) || continue
  git -C "$R" checkout -q -- . ; git -C "$R" apply $D/patch.diff 2>/dev/null || git -C "$R" apply --3way $D/patch.diff 2>/dev/null || { echo "$ID $P: patch does not apply"; continue; }
  (cd sim && cargo build --profile sim --offline 2>&1 | grep -E "^error" -A5 | head -8)
  OUT=$(VERIF_NO_EVIDENCE=1 ./sim/target/sim/sim check $P quick 2>&1 | grep -E 'VIOLATION|HARNESS|class=|^check')
  FIRST=$(echo "$OUT" | grep -oE "class=[a-z_.]+ (case|miri_seed)=[0-9]+" | head -3 | tr '\n' ';')
  EXIT=$(echo "$OUT" | grep -oE "exit=[0-9]+" | tail -1)
  echo "$ID $P: $EXIT $FIRST"
done
git -C "$R" checkout -q -- .
