#!/bin/bash
# Run checks against a seeded change WITHOUT touching /repo: meant for `vp run --with-repo -- tools/bg_seeded.sh <ID> <runs> <check>...`
# (cwd = snapshot of /verif, $VP_RUN_REPO = snapshot of /repo HEAD). Builds the simulator against the patched snapshot.
ID=$1; RUNS=$2; shift 2
set -e
R=${VP_RUN_REPO:?needs --with-repo}
git -C "$R" apply /verif/seeded/$ID/patch.diff
sed -i "s#/repo/src/lib.rs#$R/src/lib.rs#" sim/Cargo.toml; sed -i "s#/repo/src/#$R/src/#g" miri/src/main.rs
export CARGO_NET_OFFLINE=true
(cd sim && cargo build --profile sim --offline 2>&1 | tail -2)
set +e
for c in "$@"; do
  VERIF_NO_EVIDENCE=1 VERIF_RUNS=$RUNS ./sim/target/sim/sim check $c quick 2>&1 | grep -E 'VIOLATION|KNOWN|HARNESS|class=|^check' | cut -c1-400
done
