#!/bin/bash
# usage: rate.sh <seeded ID> <runs> <check>...   - failing-case rate per strategy with the seeded change applied to /repo (undone afterwards)
ID=$1; RUNS=$2; shift 2
git -C /repo apply /verif/seeded/$ID/patch.diff || exit 2
trap 'git -C /repo checkout -- . ; (cd /verif/sim && cargo build --profile sim --offline 2>&1 | tail -1)' EXIT
(cd /verif/sim && CARGO_NET_OFFLINE=true cargo build --profile sim --offline 2>&1 | grep -E "^error" -A8)
for c in "$@"; do /verif/sim/target/sim/sim rate $c $RUNS 2>&1 | grep -v conda; done
