#!/usr/bin/env python3
import json,sys
r=json.load(open(sys.argv[1]))
s=r['scenario']
print('CLASS',r['class']); print('DETAIL', r['detail'][:600])
print('sched', {k:v for k,v in r['sched'].items() if k not in('n1','n2')}, 'trace len', len(r['trace']['tasks']))
print('spec',s['evm'],'grevm',s['grevm'],'warm',s['warm_cache'],'benef',s['block']['beneficiary'][-6:],'basefee',s['block']['basefee'])
for a in s['pre_state']: print(' acct',a['address'][-6:],'bal',a['balance'],'nonce',a['nonce'],'codelen',len(a['code'])//2-1,a['storage'], a['code'] if len(a['code'])<140 else a['code'][:140]+'..')
for i,t in enumerate(s['txs']): print(' tx',i,t['label'],t['caller'][-6:],'->',(t['to'] or 'CREATE')[-6:],'val',t['value'],'nonce',t['nonce'],'type',t['tx_type'],'gp',t['gas_price'],'gl',t['gas_limit'],'data',t['data'][:140], 'auths',t['auths'])
print('faults',s['faults']); print('precompiles',s['precompiles']); print('callers',s['callers'])
if s.get('second'): 
    for i,t in enumerate(s['second']['txs']): print(' tx2',i,t['label'],t['caller'][-6:],'->',(t['to'] or 'CREATE')[-6:],'val',t['value'],'nonce',t['nonce'])
