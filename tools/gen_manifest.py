#!/usr/bin/env python3
"""Generate /verif/MANIFEST.json from the table below (keeps the file valid at all times)."""
import json, subprocess

PIPE = "deterministic simulation: the real scheduler pipeline (workers, finality, commit, caller) as shuttle-engine tasks under a seeded scheduler (uniform / sticky / PCT / thread-stall / site-targeted pause strategies, spurious wake-ups, weak-CAS failures, database latency points), seeded blocks and pre-states, stock revm executing the block in order as reference model"
ASSUME = "sequentially consistent atomics in the simulator; DashMap operations, revm execution and rayon atomic/uncontrolled w.r.t. the schedule; reference = stock revm (shared defects invisible); sampling, not proof"

CHECKS = {
 "C01": ("exploration", "Seeded search over (block, pre-state, spec, config, schedule): execute() must be Ok, outcomes and bundle (Reverts retention) equal to stock revm in order. Profiles mixed/conflict/lifecycle/code; all hardforks; 1-8 workers.", "§3 C01", PIPE + "; oracle: outcomes + BundleState field-by-field"),
 "C02": ("exploration", "Online commit monitor fed by a guarded hook: the k-th commit (parallel or sequential) must be tx k with the in-order ExecutionResult and the in-order normalised state delta (deferred reward folded), compared before it is applied; conflict-heavy blocks.", "§3 C02", PIPE + "; oracle: per-commit (txid, result, delta) invariant checked during the run"),
 "C03": ("exploration", "Invalid-transaction profile (nonce low/high/overflow, funds, intrinsic gas, fee below base fee, priority above max, sender with code, validity depending on earlier txs, nonce check on/off): outcomes incl. InvalidTransaction payloads and bundle equal to in-order revm; commit monitor forbids committing an invalid tx / skipping a valid one.", "§3 C03", PIPE + "; oracle: Skipped payload equality + bundle + commit monitor"),
 "C04": ("fault_enumeration", "Fault plans on the simulated database (persistent / fail-once / fail-nth errors on keys the reference reads, keys only a stale attempt reads, the beneficiary, random keys): persistent faults must give the reference's Ok/Err, failing index, error, exact outcome prefix and prefix bundle; transient faults are either absorbed (full result) or reported as a database error with an exact prefix.", "§3 C04", PIPE + " + injected database errors; oracle: reference on the same faulty database, exact-prefix rule"),
 "C05": ("exploration", "Strict-mode runs (park never times out, no spurious wake-up) of all profiles plus injected database errors and panics on chosen thread roles: the run must finish inside the fair phase (no deadlock = no runnable task, no livelock = step bound), the original panic payload must reach the caller, no other panic.", "§3 C05", PIPE + " in strict mode + panic/error injection; oracle: termination (engine deadlock detection, bounded fair phase), panic payload identity"),
 "C06": ("exploration", "Relation between five executions of one block: simulated parallel run, simulated parallel run with another worker count and schedule, min_parallel_txs above the block size, force_sequential, fallback_sequential() entry; all profiles, all four delegated-safety policy combinations, a quarter of the cases on a persistently faulty database. All five must agree on Ok/Err, failing index and error, outcomes and bundle.", "§3 C06", PIPE + "; oracle: run-to-run equality across configurations and entry points (no external reference needed, so policy-enabled blocks are covered)"),
 "C07": ("exploration", "Beneficiary profile (beneficiary as EOA/sender/recipient/contract/absent/near-overflow balance, zero and non-zero rewards, legacy/1559 fees, readers of COINBASE balance/code/storage, all forks): outcomes, bundle and every committed delta (which contains the beneficiary account) equal to in-order revm.", "§3 C07", PIPE + "; oracle: outcomes + bundle + per-commit beneficiary delta"),
 "C08": ("exploration", "Lifecycle profile on Frontier..Osaka (selfdestruct, CREATE/CREATE2, re-creation, constructor storage, empty-touch, probes of balance/code/slots before and after): outcomes, bundle (statuses, reverts) and commit deltas equal to in-order revm.", "§3 C08", PIPE + "; oracle: outcomes + bundle + commit monitor"),
 "C09": ("exploration", "Code profile (deployments followed by calls and EXTCODE* probes; Prague+: EIP-7702 authorisation lists that set / re-point / clear / set again, repeated and invalid authorities): outcomes, bundle and commit deltas equal to in-order revm.", "§3 C09", PIPE + "; oracle: outcomes + bundle + commit monitor"),
 "C11": ("exploration", "Precompile profile: harness precompiles (bank, observer, static mutator, fault ignorer, halter, state-dependent fatal) registered in Grevm and, through DynParallelPrecompile::to_alloy(), in the stock-revm reference; called directly, nested, via STATICCALL/DELEGATECALL, inside reverting frames, touching accounts other transactions and the beneficiary touch; every facade call is a schedule point; a quarter of the cases on a persistently faulty database (an ignored facade fault must still be fatal). Outcomes (gas charged once), bundle (no residue of discarded attempts), commit deltas and errors equal to the reference.", "§3 C11", PIPE + " + harness precompiles; oracle: outcomes + bundle + commit monitor + error equality"),
 "C13": ("exploration", "Reserve profile (Prague+/Osaka): delegated accounts whose delegate code sends value / endows CREATE / self-destructs, own later transactions at assorted positions, balances at, just above and just below the required suffix sum, credits before debits, inner reverts. Policy on: the simulated parallel run must agree with force_sequential, fallback_sequential(), another worker count and the threshold path (outcomes, bundle, errors), and the fundability invariant must hold (an account that could pay for all its block transactions at block start is never skipped for lack of funds). Policy off: tied to stock revm like C01.", "§3 C13", PIPE + "; oracle: path agreement under schedules + fundability invariant; stock revm when the policy is off"),
 "C10": ("exploration", "(b) production ParallelStateView / ParallelStateCommit (split_for_parallel): 1-3 reader tasks perform cache-filling reads of accounts, slots and code while one committer task applies, in order, a history of real journal output (a generated block executed by stock revm); every read must equal the reference value after c commits for some c between 'commits completed when it started' and 'commits started when it returned'; afterwards every key reads as revm State driven by the same history and the bundle equals revm's. (c) after every simulated execute() on a cold cache (1 or 2 consecutive blocks on the same ParallelState, Reverts or PlainState retention) every account, slot and code hash the reference touched is read back through the returned ParallelState (code must also be served by hash) and compared with revm State; second-block outcomes and the accumulated bundle are compared too.", "§3 C10", PIPE + " + component simulation of the production state views with concurrent readers; oracle: revm State (Database interface) as sequential model: read attribution, read-back equality, bundle equality"),
 "C14": ("exploration", "1-3 caller tasks on one &Scheduler, 1-2 calls each drawn from execute(), parallel_execute(Some(k)), fallback_sequential(), plus purely successive orders; empty and state-changing blocks; parallel and threshold-sequential paths. Exactly one call runs the block (result, outcomes and bundle equal ONE application of the block against stock revm; the commit monitor sees each transaction once), every other call returns the 'can execute only once' error with an in-range txid; a fresh scheduler's take_result_and_state() returns no outcomes, an untouched cache, no database read and an empty bundle.", "§3 C14", PIPE + " with concurrent entry-point callers; oracle: one winner + single application + untouched fresh state"),
 "C15": ("exploration", "(a) production SchedulerContext: 1-3 claimer tasks loop next_validation_idx(limit), 1-2 rewinder tasks call rewind_validation_to; exact-time event log (claims logged at CAS return, rewinds by the production hook right after the fetch_min): no claim at or beyond the limit, every index in [i, min(previous, limit)) of an effective rewind is claimed again afterwards. (b) ExecutionFrontier: publishers in arbitrary order with gaps and duplicates, helping readers: a returned frontier never passes a transaction whose publication has not started, at quiescence it equals the first unexecuted index. (c) real pipeline runs with a trace monitor: at every finality event the validation timestamp exceeds the timestamp of every rewind with index <= tx emitted before. Weak-memory reorderings are sampled separately under Miri (many-seeds).", "§3 C15", "deterministic simulation of the production cursor types on simulator tasks (seeded schedules, freezes at named windows, weak-CAS failures) + pipeline trace invariant + Miri many-seeds sampling of the same files with std atomics"),
 "C16": ("exploration", "Production TxDependency with 2-5 transactions, 1-3 worker tasks and a commit task, driven with the call protocol of scheduler.rs (status under a per-tx lock, next -> execution_task, success -> remove(t,true) with hand-off, conflict -> add(t, unfinalised blocker), error -> key_tx, commit publishes the cursor then commit(t)) from seeded per-transaction scripts; plus an API-level scenario family replacing a blocker while the old one is released (stale reverse edge). Oracles: every transaction finishes in strict mode inside the fair phase (no orphan), claims never exceed re-onboardings + 1, a transaction is never handed out while its current blocker is unresolved and the committed prefix has not reached it; plus strict-mode pipeline runs (a stall = lost re-offer).", "§3 C16", "deterministic simulation of the production dependency graph under the scheduler's call protocol + strict-mode pipeline runs"),
 "C17": ("exploration", "Production WaitSlot: one waiter in the production loop shape (registering itself at a seeded point), 1-2 notifiers doing publish-then-notify; strict mode: park never times out and is never woken spuriously, so a lost wake-up is an engine-detected deadlock (cannot be a false alarm); also run with spurious wake-ups to check tolerance; plus strict-mode pipeline runs where a stall means a coordinator slept through a notification it needed (validate -> finality, finality -> commit, cancel).", "§3 C17", "deterministic simulation of the production wait slot with timer-less park (deadlock detection) + strict-mode pipeline runs"),
}


NA = {
 "C12": "pure function of program, configuration and in-order state: no schedule, clock, fault or interleaving in the property (DESIGN.md §3 C12); deterministic simulation decides nothing here",
}
PENDING = "check under construction in this session (not yet claimed)"

def main():
    ids = [json.loads(l)["id"] for l in open("/verif/properties.jsonl")]
    commits = subprocess.run("git -C /repo log --format=%h --grep='^verif:'", shell=True, text=True, capture_output=True).stdout.split()
    checks = []
    for pid in ids:
        if pid not in CHECKS: continue
        level, text, ref, tech = CHECKS[pid]
        checks.append({
            "property_id": pid,
            "quick_cmd": f"bin/check {pid} quick",
            "thorough_cmd": f"bin/check {pid} thorough",
            "evidence_file": f"/verif/evidence/{pid}.json",
            "replay_cmd_template": "bin/check replay {path}",
            "engine": "sim",
            "level_claimed": {"category": level, "text": text, "design_ref": ref},
            "level_note": ASSUME,
            "technique": tech,
        })
    na = [{"property_id": p, "reason": NA.get(p, PENDING)} for p in ids if p not in CHECKS]
    m = {
        "version": 1,
        "setup_cmd": "cd /verif/sim && CARGO_NET_OFFLINE=true cargo build --profile sim --offline && cd /verif/miri && (MIRIFLAGS=-Zmiri-seed=0 CARGO_NET_OFFLINE=true cargo +nightly miri run --offline -- cursor || true)",
        "hooks": {
            "guard": "grevm_verif",
            "enable": "shadow manifest /verif/sim/Cargo.toml ([lib] path=/repo/src/lib.rs); its build.rs emits --cfg grevm_verif for the grevm crate only and points GREVM_VERIF_INSIDE at /verif/sim/inside/mod.rs",
            "baseline_off_cmd": "cd /repo && cargo test --workspace --no-fail-fast --offline",
            "source_commits": list(reversed(commits)),
            "add_only": True,
        },
        "engines": [{"name": "sim", "path": "/verif/sim", "serves_properties": sorted(CHECKS), "kind_free_text": "deterministic simulator: production code on shuttle-engine coroutines with harness-owned scheduler, SimDb fault injection, stock-revm reference, online monitors, replay + minimisation"}],
        "checks": checks,
        "not_applicable": na,
        "notes": "VERIF_SEED (default 20260923) seeds everything; VERIF_RUNS overrides the number of simulated runs; VERIF_JOBS the worker count. Exit 2 = harness error (never a verdict).",
    }
    json.dump(m, open("/verif/MANIFEST.json", "w"), indent=1)
    print("claimed:", [c["property_id"] for c in checks], "not applicable / pending:", [n["property_id"] for n in na])

main()
