#!/bin/bash
# Soak the checks on the UNCHANGED tree (snapshot of /repo HEAD) with a larger budget and another seed:
#   vp run --with-repo -- tools/bg_soak.sh <seed> <runs|default> <check>...   (seed may be a comma list)
SEEDS=$1; RUNS=$2; shift 2
R=${VP_RUN_REPO:?needs --with-repo}
sed -i "s#/repo/src/lib.rs#$R/src/lib.rs#" sim/Cargo.toml; sed -i "s#/repo/src/#$R/src/#g" miri/src/main.rs
export CARGO_NET_OFFLINE=true
(cd sim && cargo build --profile sim --offline 2>&1 | tail -1)
if [ "$RUNS" != "default" ]; then export VERIF_RUNS=$RUNS; fi
for SEED in $(echo $SEEDS | tr , ' '); do
echo "== seed $SEED"
for c in "$@"; do
  VERIF_SEED=$SEED VERIF_MIRI_SEEDS=8 ./sim/target/sim/sim check $c ${TIER:-quick} 2>&1 | grep -E 'VIOLATION|KNOWN|HARNESS|class=|^check' | cut -c1-600
done
done
