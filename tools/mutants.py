#!/usr/bin/env python3
"""Sensitivity harness: apply a deliberate property-breaking edit to /repo's working tree, run checks,
undo the edit. Usage: mutants.py <mutant|all|list> <runs> <check> [<check>...]
The edits are never committed; `git -C /repo checkout -- .` restores the tree afterwards."""
import subprocess, sys, os

M = {
 # name: (file, old, new, properties it should break)
 "no_finality_ts": ("src/scheduler.rs",
   "(self.scheduler_ctx.unconfirmed_timestamp(finality_idx) > effective_lower_ts)",
   "(self.scheduler_ctx.unconfirmed_timestamp(finality_idx) > 0)", "C01 C02 C15"),
 "no_new_write_rewind": ("src/scheduler.rs",
   "            if write_new_locations {\n                self.scheduler_ctx.rewind_validation_to(txid);\n            } else {",
   "            if false {\n                self.scheduler_ctx.rewind_validation_to(txid);\n            } else {", "C01 C02"),
 "no_mark_estimate_in_validate": ("src/scheduler.rs",
   "            self.mark_mv_estimate(txid, &result.write_set);\n            if !beneficiary.invalidate(&tx_version) {",
   "            if !beneficiary.invalidate(&tx_version) {", "C01 C02"),
 "validate_ignores_incarnation": ("src/scheduler.rs",
   "                        if version.txid != previous_id ||\n                            version.incarnation != latest_version.incarnation\n                        {",
   "                        if version.txid != previous_id {", "C01 C02"),
 "commit_publish_before_apply": ("src/scheduler.rs",
   "                let outcome =\n                    committer.commit(commit_idx, &self.txs[commit_idx], result, &mut output);",
   "                self.scheduler_ctx.publish_commit(commit_idx + 1);\n                let outcome =\n                    committer.commit(commit_idx, &self.txs[commit_idx], result, &mut output);", "C02 C04"),
 "no_commit_nonce_check": ("src/scheduler/ordered_commit.rs",
   "        if !self.disable_nonce_check {\n            match self.state.basic_ref(tx_env.caller) {",
   "        if false {\n            match self.state.basic_ref(tx_env.caller) {", "C03"),
 "head_error_always_fatal": ("src/scheduler.rs",
   "                        if invalid_transaction {\n                            self.abort(AbortReason::FallbackSequential);",
   "                        if false {\n                            self.abort(AbortReason::FallbackSequential);", "C03 C04"),
 "seq_stops_at_invalid": ("src/scheduler/fallback.rs",
   "                Err(EVMError::Transaction(error)) => {\n                    tracing::error!(",
   "                Err(EVMError::Transaction(error)) if false => {\n                    tracing::error!(", "C03"),
 "dep_commit_no_fetch_min": ("src/tx_dependency.rs",
   "                state.dependency = None;\n                self.index.fetch_min(next, Ordering::Relaxed);\n            }\n        }\n    }",
   "                state.dependency = None;\n            }\n        }\n    }", "C05 C16"),
 "no_finality_notify": ("src/scheduler.rs",
   "        if txid == self.scheduler_ctx.finality_idx() {\n            self.finality_wait.notify();\n        }",
   "", "C05 C17"),
 "no_cancel_on_panic": ("src/scheduler.rs",
   "        if thread::panicking() {\n            self.scheduler.cancel();\n        }",
   "", "C05"),
 "rewind_store": ("src/scheduler/cursor.rs",
   "        self.0.fetch_min(value, Ordering::AcqRel)",
   "        { let p = self.0.load(Ordering::Acquire); if value < p { self.0.store(value, Ordering::Release); } p }", "C15 C01"),
 "reward_newest_first": ("src/beneficiary/history.rs",
   "            .into_iter()\n            .rev()\n            .fold(self.base,",
   "            .into_iter()\n            .fold(self.base,", "C07"),
 "validate_newest_origin_only": ("src/beneficiary/history.rs",
   "        BeneficiaryValidation { valid: self.version == *expected, dependency }",
   "        BeneficiaryValidation { valid: self.version.origins.first() == expected.origins.first(), dependency }", "C07"),
 "no_reset_on_created": ("src/incarnation_db.rs",
   "            if created {\n                self.publish_storage_reset(*address, estimate, &mut write_set);\n            }",
   "", "C08"),
 "code_first_time_only": ("src/incarnation_db.rs",
   "                account_snapshot.is_none_or(|basic| basic.code_hash != Some(info.code_hash));",
   "                account_snapshot.is_none_or(|basic| basic.code_hash.is_none());", "C09"),
 "run_once_load_store": ("src/scheduler/control.rs",
   "        self.started.compare_exchange(false, true, Ordering::Relaxed, Ordering::Relaxed).map_err(\n            |_| GrevmError {",
   "        (if self.started.load(Ordering::Relaxed) { Err(()) } else { self.started.store(true, Ordering::Relaxed); Ok(()) }).map_err(\n            |_| GrevmError {", "C14"),
 "claim_limit_off_by_one": ("src/scheduler/cursor.rs",
   "        if current >= limit {\n            return None;\n        }",
   "        if current > limit {\n            return None;\n        }", "C15"),
 "frontier_no_reload": ("src/scheduler/context.rs",
   "        let frontier = self.frontier.load(Ordering::Acquire);\n        if index == frontier {\n            self.advance(frontier);\n        }",
   "        if index == frontier {\n            self.advance(frontier);\n        }", "C15"),
 "remove_no_recheck": ("src/tx_dependency.rs",
   "            if dependent.dependency == Some(txid) {\n                dependent.dependency = None;",
   "            if true {\n                dependent.dependency = None;", "C16"),
 "key_tx_ge": ("src/tx_dependency.rs",
   "        if txid > commit_idx.get() {\n            state.dependency = Some(txid);",
   "        if txid >= commit_idx.get() {\n            state.dependency = Some(txid);", "C16 C05"),
 "commit_notify_before_publish": ("src/scheduler.rs",
   "                self.scheduler_ctx.publish_finality(next_finality_idx);\n                if finality_idx == previous_finality_idx {\n                    // Start commit as soon as the first transaction in this batch is visible.\n                    self.commit_wait.notify();\n                }",
   "                if finality_idx == previous_finality_idx {\n                    self.commit_wait.notify();\n                }\n                self.scheduler_ctx.publish_finality(next_finality_idx);", "C17 C05"),
 "hist_invalidate_any_incarnation": ("src/beneficiary/history.rs",
   "        if state.incarnation != incarnation {\n            return false;\n        }\n        if matches!(&state.value, EntryValue::Exact(_)) {",
   "        if state.incarnation < incarnation {\n            return false;\n        }\n        if matches!(&state.value, EntryValue::Exact(_)) {", "C07"),
 "hist_record_same_incarnation": ("src/beneficiary/history.rs",
   "        if incarnation <= state.incarnation {\n            return false;\n        }",
   "        if incarnation < state.incarnation {\n            return false;\n        }", "C07"),
 "hist_unchanged_not_an_origin": ("src/beneficiary/history.rs",
   "            origins.push(TxVersion::new(writer, incarnation));\n            match effect {\n                BeneficiaryEffect::Unchanged => {}",
   "            if effect != BeneficiaryEffect::Unchanged { origins.push(TxVersion::new(writer, incarnation)); }\n            match effect {\n                BeneficiaryEffect::Unchanged => {}", "C07"),
 "hist_deleted_snapshot_as_unchanged": ("src/beneficiary/history.rs",
   "            Some(FinalizedAccount::Deleted) => Self::Snapshot(None),",
   "            Some(FinalizedAccount::Deleted) => Self::Unchanged,", "C07"),
 "f1_unfix_marker": ("src/parallel_state.rs", "XXX_NOT_PRESENT", "", ""),
}

def sh(cmd, **kw):
    return subprocess.run(cmd, shell=True, text=True, capture_output=True, **kw)

def run(name, runs, checks):
    f, old, new, props = M[name]
    path = os.path.join("/repo", f)
    s = open(path).read()
    if s.count(old) != 1:
        print(f"[{name}] anchor found {s.count(old)} times in {f}: skipped"); return
    open(path, "w").write(s.replace(old, new))
    try:
        b = sh("cd /verif/sim && cargo build --profile sim 2>&1 | grep -E '^error' -A 8")
        if b.stdout.strip():
            print(f"[{name}] does not compile:\n{b.stdout}"); return
        if os.environ.get("MUT_SKIP_BASELINE"):
            print(f"[{name}] (should break {props}) baseline: skipped")
        else:
            t = sh("cd /repo && cargo test --workspace --no-fail-fast --offline 2>&1 | grep -E '^test result' | head -1")
            print(f"[{name}] (should break {props}) baseline: {t.stdout.strip()}")
        for c in checks:
            r = sh(f"cd /verif && VERIF_NO_EVIDENCE=1 VERIF_RUNS={runs} ./sim/target/sim/sim check {c} quick 2>&1 | grep -E 'VIOLATION|KNOWN|HARNESS|class=|^check' | cut -c1-260")
            print(f"  {c}: " + r.stdout.strip().replace("\n", "\n      "))
    finally:
        sh("git -C /repo checkout -- .")

if __name__ == "__main__":
    if len(sys.argv) < 2 or sys.argv[1] == "list":
        for k, v in M.items(): print(k, "->", v[3])
        sys.exit(0)
    names = list(M) if sys.argv[1] == "all" else sys.argv[1].split(",")
    runs = sys.argv[2]; checks = sys.argv[3:]
    for n in names:
        if n == "f1_unfix_marker": continue
        run(n, runs, checks)
    sh("cd /verif/sim && cargo build --profile sim 2>&1 | tail -1")
