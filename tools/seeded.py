#!/usr/bin/env python3
"""Seeded-change bookkeeping.
  seeded.py import <ID> <worktree>          copy patch/demo/notes from a sub-agent's worktree into /verif/seeded/<ID>/
  seeded.py verify <ID> <worktree> <demo-cmd>   confirm in the scratch worktree: suite passes with the change, demo fails with / passes without
  seeded.py detect <ID> <runs> <check>...   apply the patch to /repo, run the checks, undo
"""
import json, os, shutil, subprocess, sys

def sh(cmd, cwd=None, timeout=3600):
    r = subprocess.run(cmd, shell=True, text=True, capture_output=True, cwd=cwd, timeout=timeout)
    return r.returncode, (r.stdout + r.stderr)

def main():
    cmd = sys.argv[1]; sid = sys.argv[2]
    d = f"/verif/seeded/{sid}"
    if cmd == "import":
        wt = sys.argv[3]
        os.makedirs(d, exist_ok=True)
        for f in os.listdir(f"{wt}/seeded"):
            shutil.copy(f"{wt}/seeded/{f}", f"{d}/{f}")
        print(os.listdir(d))
    elif cmd == "verify":
        wt = sys.argv[3]; demo = sys.argv[4]
        out = {}
        # with the change (as left by the sub-agent)
        rc, o = sh("cargo test --workspace --no-fail-fast --offline 2>&1 | grep -E '^test result' | head -1", cwd=wt)
        out["suite_with_change"] = o.strip()
        rc, o = sh(f"{demo} 2>&1 | grep -E '^test result|panicked' | head -3", cwd=wt)
        out["demo_with_change"] = o.strip()
        rc, o = sh(f"git apply -R {d}/patch.diff", cwd=wt)
        out["revert"] = (rc, o.strip())
        rc, o = sh(f"{demo} 2>&1 | grep -E '^test result|panicked' | head -3", cwd=wt)
        out["demo_without_change"] = o.strip()
        rc, o = sh(f"git apply {d}/patch.diff", cwd=wt)
        out["reapply"] = (rc, o.strip())
        print(json.dumps(out, indent=1))
    elif cmd == "detect":
        runs = sys.argv[3]; checks = sys.argv[4:]
        rc, o = sh(f"git -C /repo apply {d}/patch.diff")
        if rc != 0:
            rc, o = sh(f"git -C /repo apply --3way {d}/patch.diff && git -C /repo reset -q")
        if rc != 0:
            print("patch does not apply to /repo:", o); return
        try:
            rc, o = sh("cd /verif/sim && cargo build --profile sim --offline 2>&1 | grep -E '^error' -A 8")
            if o.strip():
                print("does not compile with hooks on:\n", o); return
            for c in checks:
                rc, o = sh(f"cd /verif && VERIF_NO_EVIDENCE=1 VERIF_RUNS={runs} ./sim/target/sim/sim check {c} quick 2>&1 | grep -E 'VIOLATION|KNOWN|HARNESS|class=|^check' | cut -c1-300")
                print(f"[{sid}] {c}: " + o.strip().replace("\n", "\n     "))
        finally:
            sh("git -C /repo checkout -- .")
            sh("cd /verif/sim && cargo build --profile sim --offline 2>&1 | tail -1")

main()
