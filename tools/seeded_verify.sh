#!/bin/bash
# usage: seeded_verify.sh <ID> <lib|integ|integ-utils> [worktree]  — confirm a seeded change in a scratch worktree (default /tmp/ws)
ID=$1; KIND=$2; WS=${3:-/tmp/ws}; D=/verif/seeded/$ID; cd $WS || exit 2
export CARGO_NET_OFFLINE=true
git checkout -q -- . ; git clean -fdq -e target
git apply $D/patch.diff || { echo "patch does not apply"; exit 2; }
if [ -f $D/seeded_demo.rs ] && [ "$KIND" != "lib" ]; then cp $D/seeded_demo.rs tests/seeded_demo.rs; else git apply $D/demo.diff || { echo "demo does not apply"; exit 2; }; fi
case $KIND in
  lib) DEMO="cargo test --offline --lib seeded_" ;;
  integ) DEMO="cargo test --offline --test seeded_demo" ;;
  integ-utils) DEMO="cargo test --offline --features test-utils --test seeded_demo" ;;
esac
echo "== build with change"; cargo build --offline 2>&1 | tail -1
echo "== suite with change (demo skipped)"; cargo test --workspace --no-fail-fast --offline -- --skip seeded_demo --skip seeded_c05 2>&1 | grep -E "^test result" | head -1
echo "== demo WITH change"; timeout 900 $DEMO 2>&1 | grep -E "^test result|^test .*(FAILED|ok)$" | head -5
git apply -R $D/patch.diff
echo "== demo WITHOUT change"; timeout 900 $DEMO 2>&1 | grep -E "^test result|^test .*(FAILED|ok)$" | head -5
git checkout -q -- . ; git clean -fdq -e target
