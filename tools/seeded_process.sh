#!/bin/bash
# usage: seeded_process.sh <ID> <worktree> <lib|integ|integ-utils> <runs> <check>...
# import a sub-agent's deliverables, confirm them in its scratch worktree, then run the checks against the change applied to /repo
ID=$1; WT=$2; KIND=$3; RUNS=$4; shift 4
mkdir -p /verif/seeded/$ID && cp $WT/seeded/* /verif/seeded/$ID/ 2>/dev/null
ls /verif/seeded/$ID
bash /verif/tools/seeded_verify.sh $ID $KIND $WT 2>&1 | grep -v conda | tee /verif/seeded/$ID/.verify.txt
python3 /verif/tools/seeded.py detect $ID $RUNS "$@" 2>&1 | grep -v conda | cut -c1-420 | tee /verif/seeded/$ID/.detect.txt
