//! Scenarios over the PRODUCTION files (included by path) with real std threads, run under Miri:
//! Miri's scheduler is seeded (`-Zmiri-many-seeds`) and it emulates store buffers for non-SC atomics,
//! so reorderings that Acquire/Release/Relaxed permit beyond sequential consistency are sampled here.
//! Usage: grevm-miri <cursor|frontier|wait|dependency> ; exit code 1 + "VIOLATION ..." on failure.

pub type TxId = usize;

pub mod scheduler {
    #[path = "/repo/src/scheduler/cursor.rs"]
    pub mod cursor;
    #[path = "/repo/src/scheduler/context.rs"]
    pub mod context;
    #[path = "/repo/src/scheduler/wait.rs"]
    pub mod wait;
    pub(crate) use cursor::PublishedCursorReader;

    use std::sync::Mutex;
    use std::sync::atomic::{AtomicUsize, Ordering};
    use std::time::{Duration, Instant};

    fn fail(msg: String) -> ! {
        println!("VIOLATION {msg}");
        std::process::exit(1);
    }

    /// C15(a): claimers and a rewinder on the production SchedulerContext.
    pub fn cursor_scenario() {
        let n = 4;
        let limit = 3;
        let ctx = context::SchedulerContext::new(n);
        for i in 0..n {
            ctx.executed(i);
        }
        let claims = Mutex::new(Vec::<usize>::new());
        let rewinds_done = AtomicUsize::new(0);
        std::thread::scope(|s| {
            for _ in 0..2 {
                s.spawn(|| {
                    loop {
                        while let Some(i) = ctx.next_validation_idx(limit) {
                            if i >= limit {
                                fail(format!("cursor: index {i} handed out with limit {limit}"));
                            }
                            claims.lock().unwrap().push(i);
                        }
                        if rewinds_done.load(Ordering::Acquire) == 1 {
                            while let Some(i) = ctx.next_validation_idx(limit) {
                                claims.lock().unwrap().push(i);
                            }
                            break;
                        }
                        std::thread::yield_now();
                    }
                });
            }
            s.spawn(|| {
                ctx.rewind_validation_to(1);
                ctx.rewind_validation_to(0);
                rewinds_done.store(1, Ordering::Release);
            });
        });
        // after the last rewind (to 0) completed, every index below the limit was offered again and
        // the cursor ended at the limit; each index was claimed at least once overall
        if ctx.validation_idx() != limit {
            fail(format!("cursor: validation cursor ended at {} instead of {limit}", ctx.validation_idx()));
        }
        let c = claims.into_inner().unwrap();
        for j in 0..limit {
            if !c.contains(&j) {
                fail(format!("cursor: index {j} never claimed: {c:?}"));
            }
        }
    }

    /// C15(b): out-of-order publishers and a helping reader.
    pub fn frontier_scenario() {
        let n = 4;
        let ctx = context::SchedulerContext::new(n);
        let started: Vec<AtomicUsize> = (0..n).map(|_| AtomicUsize::new(0)).collect();
        std::thread::scope(|s| {
            s.spawn(|| {
                for i in [2usize, 0] {
                    started[i].store(1, Ordering::SeqCst);
                    ctx.executed(i);
                }
            });
            s.spawn(|| {
                for i in [1usize, 3] {
                    started[i].store(1, Ordering::SeqCst);
                    ctx.executed(i);
                }
            });
            s.spawn(|| {
                for _ in 0..3 {
                    let f = ctx.execution_frontier();
                    for j in 0..f.min(n) {
                        if started[j].load(Ordering::SeqCst) == 0 {
                            fail(format!("frontier: {f} returned although transaction {j} never started publishing"));
                        }
                    }
                    std::thread::yield_now();
                }
            });
        });
        let f = ctx.execution_frontier();
        if f != n {
            fail(format!("frontier: at quiescence {f}, expected {n}"));
        }
    }

    /// C17: a lost wake-up shows up as a wait that lasts as long as the (virtual) stall timeout.
    // The condition is mutex-protected, as the production finality predicate is (transaction status under
    // the per-tx lock): the lock hand-over orders the waiter's registration before the notifier's lookup
    // of the registered thread. With a bare atomic condition the abstract memory model admits the
    // store-buffering outcome "waiter reads the old condition AND notifier reads 'nobody registered'"
    // (Miri samples it); see DESIGN.md, C17, for why that is outside the property's quantifier.
    pub fn wait_scenario() {
        let slot = wait::WaitSlot::new();
        let counter = Mutex::new(0usize);
        let timeout = Duration::from_secs(8);
        std::thread::scope(|s| {
            s.spawn(|| {
                slot.register_current_thread();
                for target in [1usize, 3] {
                    while *counter.lock().unwrap() < target {
                        let start = Instant::now();
                        slot.wait_while(timeout, || *counter.lock().unwrap() < target);
                        if start.elapsed() >= Duration::from_secs(7) && *counter.lock().unwrap() >= target {
                            fail("wait: the waiter slept through a notification (woken only by the stall timeout)".into());
                        }
                    }
                }
            });
            s.spawn(|| {
                for _ in 0..3 {
                    *counter.lock().unwrap() += 1;
                    slot.notify();
                }
            });
        });
    }

    pub fn dependency_scenario() {
        use cursor::PublishedCursor;
        use std::sync::Mutex;
        use std::sync::atomic::{AtomicBool, Ordering};
        use crate::tx_dependency::TxDependency;
        #[derive(Clone, Copy, PartialEq, Debug)]
        enum St {
            Initial,
            Executing,
            Executed,
            Conflict,
        }
        let n = 3;
        let dep = TxDependency::new(n);
        let committed = PublishedCursor::new(0);
        let status: Vec<Mutex<(St, usize)>> = (0..n).map(|_| Mutex::new((St::Initial, 0))).collect();
        // scripts: tx1 first conflicts on tx0, tx2 first errs (parked behind its commit boundary)
        let stop = AtomicBool::new(false);
        let execution_task = |id: usize| -> Option<usize> {
            let mut tx = status[id].lock().unwrap();
            match tx.0 {
                St::Initial | St::Conflict => {
                    tx.0 = St::Executing;
                    tx.1 += 1;
                    Some(id)
                }
                St::Executing => None,
                St::Executed => {
                    drop(tx);
                    dep.remove(id, false);
                    None
                }
            }
        };
        let execute = |t: usize| -> Option<usize> {
            let mut tx = status[t].lock().unwrap();
            let attempt = tx.1;
            let mut next = None;
            if t == 1 && attempt == 1 {
                let blocker = (0 >= committed.get()).then_some(0);
                dep.add(t, blocker);
                tx.0 = St::Conflict;
            } else if t == 2 && attempt == 1 {
                dep.key_tx(t, committed.reader());
                tx.0 = St::Conflict;
            } else {
                next = dep.remove(t, true);
                tx.0 = St::Executed;
            }
            drop(tx);
            next.and_then(|nx| execution_task(nx))
        };
        let deadline = std::time::Instant::now() + std::time::Duration::from_secs(60);
        std::thread::scope(|s| {
            s.spawn(|| {
                let mut c = 0;
                while c < n {
                    if status[c].lock().unwrap().0 == St::Executed {
                        committed.publish(c + 1);
                        dep.commit(c);
                        c += 1;
                    } else {
                        if std::time::Instant::now() > deadline {
                            println!("VIOLATION dependency: transaction {c} was never re-offered (orphan)");
                            std::process::exit(1);
                        }
                        std::thread::yield_now();
                    }
                }
                stop.store(true, Ordering::Release);
            });
            for _ in 0..2 {
                s.spawn(|| {
                    while !stop.load(Ordering::Acquire) {
                        if let Some(id) = dep.next() {
                            let mut task = execution_task(id);
                            while let Some(t) = task {
                                task = execute(t);
                            }
                        } else {
                            std::thread::yield_now();
                        }
                    }
                });
            }
        });
    }
}

#[path = "/repo/src/tx_dependency.rs"]
pub mod tx_dependency;

fn main() {
    let which = std::env::args().nth(1).unwrap_or_else(|| "cursor".into());
    match which.as_str() {
        "cursor" => scheduler::cursor_scenario(),
        "frontier" => scheduler::frontier_scenario(),
        "wait" => scheduler::wait_scenario(),
        "dependency" => scheduler::dependency_scenario(),
        other => panic!("unknown scenario {other}"),
    }
    println!("ok {which}");
}
